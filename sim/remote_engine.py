"""C16 `remote`: http:/https: checks against a simulated peer.

One case is a batch of decisions: a seeded base decision (expression with
remote leaves at any depth, peer behaviour per leaf, TLS files on SimFS,
timeout/content-type knobs, target with nested and opaque values) followed by
its fault enumeration -- every fault kind injected at every remote-leaf
position, every TLS-file fault, and every reply body of the alphabet at one
leaf. Each decision is one Enforcer.enforce() call judged by a three-valued
evaluation of the expression over the scripted peer behaviour.
"""
import copy
import json
import urllib.parse

from sim import core
from sim import rast
from sim import simfs
from sim import simnet

T, F, U = 'T', 'F', 'U'

BODIES = ['True', '"True"', 'true', 'TRUE', 'True\n', ' True', 'False', '',
          '1', 'TrueTrue', '"true"', 'Truee', 'null', '"False"', 'yes',
          'True ' * 2000, '""', 'Tru', '\tTrue', 'True\r\n', '"True"\n',
          'true"', "'True'", '[True]', '{"allowed": true}', 'T',
          # left unconstrained (ambiguous reading of "surrounding quotes")
          '"True', 'True"', '""True""',
          # undecodable without a charset: skipped
          '\xff\xfeTrue',
          # a UTF-8 byte-order mark in front of True is not True (judged
          # only when the reply declares its charset)
          '\xef\xbb\xbfTrue',
          # invalid UTF-8 that would read True if the bad bytes were dropped
          'Tr\xffue', 'True\xc3', '\x80"True"']
AMBIGUOUS = ('"True', 'True"', '""True""')
STATUSES = [200, 200, 200, 201, 204, 302, 400, 401, 403, 404, 500, 503]
HEADERS = [{}, {'Content-Type': 'text/plain; charset=utf-8'},
           {'Content-Type': 'application/json'},
           {'Content-Type': 'text/html'},
           {'Content-Type': 'text/plain; charset=ascii'}]
NET_FAULTS = ['ConnectTimeout', 'ReadTimeout', 'ConnectionError', 'SSLError',
              'ChunkedEncodingError', 'slow_connect', 'slow_read', 'stall']
TLS_FAULTS = ['crt_missing', 'crt_unreadable', 'key_missing',
              'key_unreadable', 'ca_missing']
TEMPLATES = ['http://h0.test/v1/%(name)s/check', 'http://h1.test/%(id)s',
             'http://plain.test/x', 'https://s0.test/%(id)s/authz',
             'https://s1.test/p/%(name)s',
             # the URL is a %-template: a literal percent is written %%
             'http://plain.test/authz?realm=dev%%2Fops',
             'https://s2.test/q?x=50%%25&n=%(name)s',
             # a target key with characters outside [A-Za-z0-9_.-]
             'http://h2.test/net/%(provider:network_type)s/x']
PNAMES = ['svc:get', 'p', 'compute:servers:create', 'rule with space']
CT_FORM = 'application/x-www-form-urlencoded'
CT_JSON = 'application/json'
TLS_DIR = '/simfs/tls'


def warm_up():
    core.boot()
    simnet.install()
    import random
    rng = random.Random('warm-up-c16')
    for _ in range(3):
        run_decision(gen_decision(rng))


# ----------------------------------------------------------- generation

def gen_expr(rng, depth, roles, aliases, counter):
    r = rng.random()
    if depth == 0 or r < 0.4:
        q = rng.random()
        if q < 0.55:
            counter[0] += 1
            return ['http', rng.choice(TEMPLATES) + '/L%d' % counter[0]]
        if q < 0.85:
            return ['role', rng.choice(roles)]
        if aliases and q < 0.95:
            return ['rule', rng.choice(aliases)]
        return ['true'] if rng.random() < 0.5 else ['false']
    if r < 0.55:
        return ['not', gen_expr(rng, depth - 1, roles, aliases, counter)]
    return [rng.choice(['and', 'or']),
            [gen_expr(rng, depth - 1, roles, aliases, counter)
             for _ in range(rng.randint(2, 3))]]


def leaves(a, rules, out=None, seen=None):
    """remote leaves reachable from an expression, in evaluation order"""
    out = [] if out is None else out
    seen = set() if seen is None else seen
    k = a[0]
    if k == 'http':
        if a[1] not in out:
            out.append(a[1])
    elif k == 'not':
        leaves(a[1], rules, out, seen)
    elif k in ('and', 'or'):
        for x in a[1]:
            leaves(x, rules, out, seen)
    elif k == 'rule' and a[1] in rules and a[1] not in seen:
        seen.add(a[1])
        leaves(rules[a[1]], rules, out, seen)
    return out


def gen_behaviour(rng, timeout):
    b = {'fault': None, 'connect_latency': rng.choice([0.0, 0.0, 0.0002]),
         'latency': rng.choice([0.0, 0.0003, 0.0009]),
         'status': rng.choice(STATUSES), 'headers': rng.choice(HEADERS),
         'body': rng.choice(BODIES[:8]) if rng.random() < 0.6
         else rng.choice(BODIES)}
    if rng.random() < 0.1:
        b['fault'] = rng.choice(NET_FAULTS[:5])
    elif rng.random() < 0.08:
        b['latency'] = rng.choice([timeout * 1.5, timeout + 0.001, 'stall'])
    return b


def gen_decision(rng):
    roles_u = ['a', 'b', 'c']
    counter = [0]
    aliases = {}
    for n in ['al1', 'al2'][:rng.choice((0, 1, 1, 2))]:
        aliases[n] = gen_expr(rng, rng.choice((0, 1)), roles_u, [], counter)
    pname = rng.choice(PNAMES)
    for _ in range(20):
        top = gen_expr(rng, rng.choice((0, 1, 2, 2, 3)), roles_u,
                       sorted(aliases), counter)
        rules = dict(aliases)
        rules[pname] = top
        if leaves(top, rules):
            break
    timeout = rng.choice([0.001, 1.0, 60.0])
    tls = {'crt': None, 'key': None, 'ca': None, 'verify': False}
    if rng.random() < 0.5:
        tls['crt'] = 'ok' if rng.random() < 0.7 else None
        tls['key'] = 'ok' if rng.random() < 0.7 else None
        tls['ca'] = 'ok' if rng.random() < 0.6 else None
        tls['verify'] = rng.random() < 0.6
    target = {'name': rng.choice(['n1', 'a b', 'x/y', 'n%41', 'naive']),
              'id': rng.randint(0, 99),
              'nested': rng.choice([{'k': [1, {'z': None}]}, {}, [1, 'two'],
                                    {'deep': {'deeper': {'v': 'x'}}}]),
              'project_id': 'p-1',
              'provider:network_type': rng.choice(['vxlan', 'flat'])}
    if rng.random() < 0.35:
        target['auth_token'] = 'tok-123'
        if isinstance(target['nested'], dict):
            target['nested']['admin_password'] = 'pw'
    if rng.random() < 0.25:
        # a dict whose keys are not all strings (JSON turns them into
        # strings; they are not mutually orderable)
        target['ports'] = {'__mixedkeys__': [[22, 'ssh'], ['default', 'deny'],
                                             [None, 'x']][:rng.choice((2, 3))]}
    if rng.random() < 0.3:
        target['security_groups'] = {'__tuple__': rng.choice(
            ([], ['sg-1', 'sg-2'], [1, [2, 3]]))}
    if rng.random() < 0.5:
        target['obj'] = {'__opaque__': 1}
    if rng.random() < 0.2:
        target['obj2'] = {'__opaque__': 2}
    if rng.random() < 0.12:
        # an opaque object below the top level (inside a list, a dict, a
        # tuple): whether such a call goes through or raises is left
        # unconstrained, but the caller's target must come back untouched
        target['attachments'] = {'__nested_opaque__': rng.choice(
            ('list', 'dict', 'list-dict', 'tuple', 'dict-list'))}
    creds = {'roles': rng.sample(roles_u, rng.randint(0, 3)),
             'user_id': 'u1', 'project_id': rng.choice(['p-1', 'p-2'])}
    if rng.random() < 0.2:
        creds['is_admin'] = True
    peers = {u: gen_behaviour(rng, timeout) for u in leaves(top, rules)}
    return {'rules': rules, 'pname': pname, 'target': target,
            'creds': creds, 'timeout': timeout,
            'content_type': rng.choice([CT_FORM, CT_JSON]),
            'tls': tls, 'peers': peers, 'variant': 'base',
            # per-decision knobs (swarm style): library debug logging on,
            # and a transport that does not itself validate TLS files (as
            # requests_mock or a custom mounted adapter would not), so that
            # the library's own pre-checks are the only guard
            'debug_logging': rng.random() < 0.3,
            'lenient_transport': rng.random() < 0.4,
            'ctx_steps': gen_ctx_steps(rng, roles_u)
            if rng.random() < 0.25 else None,
            'seq': None,
            # the rules may hold the expression under the default rule's
            # name while an undefined, unregistered name is enforced: the
            # decision falls back to the default rule, the request must
            # still carry the enforced name
            'via_default_rule': rng.random() < 0.12,
            # remote_content_type written in another capitalisation (the
            # unchanged configuration rejects that; then it is not used)
            'content_type_case_variant': rng.random() < 0.06}


def gen_ctx_steps(rng, roles_u):
    """Credentials handed over as ONE oslo.context RequestContext object
    that the service re-scopes between several enforce() calls on the same
    enforcer: each step is the set of attributes changed before a call."""
    steps = [{'roles': rng.sample(roles_u, rng.randint(0, 3)),
              'project_id': 'p-1'}]
    pool = [{'domain_id': 'd2', 'project_id': None},
            {'system_scope': 'all', 'project_id': None},
            {'domain_id': 'd1'}, {'is_admin_project': False},
            {'roles': rng.sample(roles_u, rng.randint(0, 3))},
            {'project_id': 'p-2'}, {'user_id': 'u2'},
            {'service_user_id': 'svc-1'}, {'project_domain_id': 'pd-9'}]
    for _ in range(rng.randint(1, 3)):
        steps.append(dict(rng.choice(pool)))
    return steps


def gen_seq(rng, clean):
    """Several enforce() calls on ONE enforcer: a fault that comes and
    goes, options changed on the live conf between calls."""
    urls = sorted(clean['peers'])
    seq = [{}]
    for _ in range(rng.randint(1, 3)):
        r = rng.random()
        if r < 0.55:
            u = rng.choice(urls)
            b = copy.deepcopy(clean['peers'][u])
            f = rng.choice(NET_FAULTS)
            if f == 'slow_connect':
                b['connect_latency'] = 1e6
            elif f == 'slow_read':
                b['latency'] = 1e6
            elif f == 'stall':
                b['latency'] = 'stall'
            else:
                b['fault'] = f
            seq.append({'peers': {u: b}})
            seq.append({'peers': {u: copy.deepcopy(clean['peers'][u])}})
        elif r < 0.75:
            seq.append({'options': {'content_type': rng.choice(
                [CT_FORM, CT_JSON])}})
        elif r < 0.9:
            what = rng.choice(('crt', 'key'))
            seq.append({'options': {'tls': {what: rng.choice(
                ('missing', 'unreadable', 'ok', None))}}})
            seq.append({'options': {'tls': {what: 'ok'}}})
        else:
            u = rng.choice(urls)
            b = copy.deepcopy(clean['peers'][u])
            b['body'] = rng.choice(BODIES[:8])
            seq.append({'peers': {u: b}})
    return seq


def variants(base, rng):
    out = []
    urls = sorted(base['peers'])
    clean = copy.deepcopy(base)
    # start the enumeration from a fault-free copy so each injected fault
    # is the only one, then also on top of the seeded base (fault sequences)
    for u in urls:
        b = clean['peers'][u]
        b['fault'] = None
        b['connect_latency'] = 0.0
        b['latency'] = 0.0
        if b['body'] in AMBIGUOUS or b['body'].startswith('\xff'):
            b['body'] = 'True'
    for tlsk in ('crt', 'key', 'ca'):
        if clean['tls'][tlsk] not in (None, 'ok'):
            clean['tls'][tlsk] = 'ok'
    clean['variant'] = 'fault-free'
    clean['ctx_steps'] = None
    out.append(clean)
    for j in range(2):
        d = copy.deepcopy(clean)
        d['seq'] = gen_seq(rng, clean)
        d['variant'] = 'sequence-%d' % j
        out.append(d)
    for start, tag in ((clean, 'solo'), (base, 'stacked')):
        for u in urls:
            for f in NET_FAULTS:
                if tag == 'stacked' and rng.random() < 0.6:
                    continue
                d = copy.deepcopy(start)
                b = d['peers'][u]
                if f == 'slow_connect':
                    b['connect_latency'] = d['timeout'] * 2
                elif f == 'slow_read':
                    b['latency'] = d['timeout'] + 0.0005
                elif f == 'stall':
                    b['latency'] = 'stall'
                else:
                    b['fault'] = f
                d['variant'] = '%s:%s@%s' % (tag, f, u.rsplit('/', 1)[-1])
                out.append(d)
    if any(u.startswith('https') for u in urls):
        for f in TLS_FAULTS:
            d = copy.deepcopy(clean)
            what, how = f.split('_')
            d['tls'][what] = how
            if what == 'ca':
                d['tls']['verify'] = True
            d['variant'] = 'solo:tls_' + f
            out.append(d)
    # the reply-body alphabet at one leaf, other leaves neutral
    u = rng.choice(urls)
    for body in BODIES:
        d = copy.deepcopy(clean)
        d['peers'][u]['body'] = body
        d['peers'][u]['status'] = rng.choice(STATUSES)
        d['peers'][u]['headers'] = rng.choice(HEADERS)
        d['variant'] = 'body:%r@%s' % (body[:12], u.rsplit('/', 1)[-1])
        out.append(d)
    return out


def gen_case(base, i, mode='plain'):
    rng = core.rng_for(base, 'C16', i, mode)
    d = gen_decision(rng)
    return {'prop': 'C16', 'decisions': [d] + variants(d, rng)}


# -------------------------------------------------------------- oracle

def leaf_value(beh, is_https, tls, timeout):
    """T / F / U(fault) / None(unconstrained) for one remote leaf."""
    if is_https:
        if tls['crt'] in ('missing', 'unreadable') or \
                tls['key'] in ('missing', 'unreadable'):
            return U
        if tls['verify'] and tls['ca'] == 'missing':
            return U
    if beh['fault']:
        return U
    for lat in (beh['connect_latency'], beh['latency']):
        if lat == 'stall' or lat > timeout:
            return U
    body = beh['body']
    if body in AMBIGUOUS:
        return None
    if any(ord(c) > 127 for c in body):
        ct = (beh['headers'] or {}).get('Content-Type', '')
        if 'charset' not in ct:
            return None
    s = body
    while s.startswith('"'):
        s = s[1:]
    while s.endswith('"'):
        s = s[:-1]
    return T if s == 'True' else F


def kleene(a, val, rules, roles, depth=0):
    k = a[0]
    if k == 'http':
        return val[a[1]]
    if k == 'role':
        return T if a[1] in roles else F
    if k == 'true':
        return T
    if k == 'false':
        return F
    if k == 'rule':
        if a[1] not in rules or depth > 20:
            return F
        return kleene(rules[a[1]], val, rules, roles, depth + 1)
    if k == 'not':
        return {T: F, F: T, U: U}[kleene(a[1], val, rules, roles, depth)]
    vs = [kleene(x, val, rules, roles, depth) for x in a[1]]
    if k == 'and':
        return F if F in vs else (U if U in vs else T)
    return T if T in vs else (U if U in vs else F)


def _freeze(v, keep):
    """Structural fingerprint of a target value in which bare object()
    instances count by identity (deepcopy would clone them and == would
    then fail); `keep` holds them so that ids cannot be reused."""
    if type(v) is object:
        keep.append(v)
        return ('obj', id(v))
    if isinstance(v, dict):
        return ('dict', tuple((repr(k), _freeze(x, keep))
                              for k, x in v.items()))
    if isinstance(v, (list, tuple)):
        return (type(v).__name__, tuple(_freeze(x, keep) for x in v))
    return ('val', type(v).__name__, repr(v))


def _materialise(target):
    out = {}
    opaque = {}
    for k, v in target.items():
        if isinstance(v, dict) and '__opaque__' in v:
            out[k] = object()
            opaque[k] = out[k]
        elif isinstance(v, dict) and '__nested_opaque__' in v:
            o = object()
            out[k] = {'list': lambda: ['vol-1', o],
                      'dict': lambda: {'dev': o, 'n': 1},
                      'list-dict': lambda: [{'dev': o}, 'vol-2'],
                      'tuple': lambda: ('vol-1', o),
                      'dict-list': lambda: {'devs': [o, o], 'n': [1]},
                      }[v['__nested_opaque__']]()
        elif isinstance(v, dict) and '__tuple__' in v:
            out[k] = tuple(copy.deepcopy(v['__tuple__']))
        elif isinstance(v, dict) and '__mixedkeys__' in v:
            out[k] = {kk: vv for kk, vv in v['__mixedkeys__']}
        else:
            out[k] = copy.deepcopy(v)
    return out, opaque


def run_decision(d, dg=None, cnt=None):
    """Execute one decision; returns a violation dict or None."""
    import random
    import requests
    from oslo_config import cfg
    from oslo_policy import policy
    cnt = cnt if cnt is not None else core.Counter()
    fs = simfs.SimFS(random.Random('c16-fs'), t0=1000.0)
    simfs.use(fs)
    peer = simnet.Peer()
    peer.lenient = bool(d.get('lenient_transport'))
    simnet.use(peer)
    import logging
    lg = logging.getLogger('oslo_policy')
    saved_log = (logging.root.manager.disable, lg.level, lg.propagate)
    if d.get('debug_logging'):
        logging.disable(logging.NOTSET)
        lg.setLevel(logging.DEBUG)
        lg.propagate = False
        if not any(isinstance(h, logging.NullHandler) for h in lg.handlers):
            lg.addHandler(logging.NullHandler())
        cnt.hit('knob:debug_logging')
    if peer.lenient:
        cnt.hit('knob:lenient_transport')
    try:
        fs.mkdir(TLS_DIR)
        conf = cfg.ConfigOpts()
        conf(args=[], project='verifsim', default_config_files=[],
             default_config_dirs=[])
        e = policy.Enforcer(conf, use_conf=False)
        conf.set_override('remote_timeout', d['timeout'],
                          group='oslo_policy')
        conf.set_override('remote_content_type', d['content_type'],
                          group='oslo_policy')
        # the configuration in force for the call being judged; a step of
        # a call sequence may change it on the live conf (set_override)
        cur = {'timeout': d['timeout'], 'content_type': d['content_type'],
               'tls': dict(d['tls'])}

        def apply_options():
            conf.set_override('remote_timeout', cur['timeout'],
                              group='oslo_policy')
            ct_ = cur['content_type']
            if d.get('content_type_case_variant'):
                variant = {CT_FORM: 'application/X-WWW-Form-URLencoded',
                           CT_JSON: 'Application/JSON'}[ct_]
                try:
                    conf.set_override('remote_content_type', variant,
                                      group='oslo_policy')
                    if conf.oslo_policy.remote_content_type.lower() != ct_:
                        raise ValueError(variant)
                    cnt.hit('knob:content_type_case_variant_accepted')
                    ct_ = None
                except Exception:      # noqa - rejected: use the canonical
                    cnt.hit('knob:content_type_case_variant_rejected')
            if ct_ is not None:
                conf.set_override('remote_content_type', ct_,
                                  group='oslo_policy')
            tls_ = cur['tls']
            for key, opt, fn in (
                    ('crt', 'remote_ssl_client_crt_file',
                     TLS_DIR + '/c.crt'),
                    ('key', 'remote_ssl_client_key_file',
                     TLS_DIR + '/c.key'),
                    ('ca', 'remote_ssl_ca_crt_file', TLS_DIR + '/ca.crt')):
                st = tls_[key]
                conf.set_override(opt, fn if st is not None else None,
                                  group='oslo_policy')
                if fs.exists(fn):
                    fs.unlink(fn)
                if st in ('ok', 'unreadable'):
                    fs.write(fn, '-----BEGIN PEM-----\n',
                             mode=0o644 if st == 'ok' else 0o000)
                if st is not None:
                    cnt.hit('tls_%s_%s' % (key, st))
            conf.set_override('remote_ssl_verify_server_crt',
                              bool(tls_['verify']), group='oslo_policy')
        apply_options()
        tls = cur['tls']
        rules = d['rules']
        enforce_name = d['pname']
        text_rules = {k: rast.show(v) for k, v in rules.items()}
        if d.get('via_default_rule'):
            text_rules['default'] = text_rules.pop(d['pname'])
            enforce_name = 'ghost:' + d['pname']
            cnt.hit('knob:enforced_name_falls_back_to_default_rule')
        e.set_rules(policy.Rules.from_dict(text_rules), use_conf=False)
        target, opaque = _materialise(d['target'])
        keep_alive = []
        frozen = _freeze(target, keep_alive)
        nested_opaque = any(isinstance(v, dict) and '__nested_opaque__' in v
                            for v in d['target'].values())
        if nested_opaque:
            cnt.hit('knob:opaque_object_below_top_level')
        snapshot = {k: (v if k in opaque else copy.deepcopy(v))
                    for k, v in target.items()}
        plain_target = {k: ({} if k in opaque else v)
                        for k, v in snapshot.items()}
        val = {}
        expected_urls = {}
        behaviours = {u: dict(b) for u, b in d['peers'].items()}

        def script_peers():
            for tmpl, beh in behaviours.items():
                full = tmpl % snapshot
                norm = requests.Request('POST', full).prepare().url
                b = dict(beh)
                b['body'] = beh['body'].encode('latin-1')
                peer.script[norm] = b
                expected_urls[norm] = tmpl
                val[tmpl] = leaf_value(beh, tmpl.startswith('https'),
                                       cur['tls'], cur['timeout'])
        script_peers()

        def one_call(creds, creds_snapshot, roles_now, step_no):
            try:
                got = T if e.enforce(enforce_name, target, creds) else F
            except simnet.SimStall:
                got = 'HANG'
            except Exception as ex:      # noqa - outcome recorded
                got = 'EXC:' + type(ex).__name__
            for k, n in peer.faults_fired.items():
                cnt.hit('fault:' + k, n)
            cnt.hit('requests', len(peer.requests))
            simtime = peer.clock
            if dg is not None:
                dg.add('decision', d['variant'], step_no, got, d.get('debug_logging'),
                       d.get('lenient_transport'),
                       [(r['url'], r['timeout'], str(r['verify']), str(r['cert']),
                         r['body'] if isinstance(r['body'], str)
                         else repr(r['body'])) for r in peer.requests])

            def viol(sig, **detail):
                detail.update(sig=sig, prop='C16', got=got,
                              variant=d['variant'])
                return detail

            if _freeze(target, []) != frozen:
                return viol('target-mutated', how='structure'), simtime
            if nested_opaque:
                if got == 'HANG':
                    return viol('hang-no-timeout', want='?'), simtime
                cnt.hit('target_checked_decision_unconstrained')
                return None, simtime
            reach = leaves(rules[d['pname']], rules)
            vals = {u: val[u] for u in reach}
            if any(v is None for v in vals.values()):
                cnt.hit('unconstrained_skipped')
                return None, simtime
            any_u = U in vals.values()
            want = kleene(rules[d['pname']], val, rules, roles_now)
            cnt.hit('kleene_' + want)
            if got == 'HANG':
                return viol('hang-no-timeout', want=want), simtime
            raised = got.startswith('EXC')
            if not any_u:
                if raised:
                    return viol('raised-without-fault:' + got[4:],
                                want=want), simtime
                if got != want:
                    return viol('allowed-without-True' if got == T
                                else 'denied-despite-True', want=want), simtime
            else:
                if want == U and not raised:
                    return viol('fault-swallowed:' +
                                ('allow' if got == T else 'deny'),
                                want='raise'), simtime
                if not raised and got != want:
                    return viol('allowed-without-True' if got == T
                                else 'denied-despite-True', want=want), simtime
                if raised:
                    cnt.hit('raised_on_fault')
            # ---- what the peer received
            for rq in peer.requests:
                if rq['url'] not in expected_urls:
                    return viol('request-url', url=rq['url']), simtime
                if rq['method'] != 'POST':
                    return viol('request-method', method=rq['method']), simtime
                ct = rq['headers'].get('Content-Type', '')
                body = rq['body']
                if isinstance(body, bytes):
                    body = body.decode('utf-8')
                try:
                    if cur['content_type'] == CT_JSON:
                        if not ct.startswith(CT_JSON):
                            return viol('request-encoding', content_type=ct), \
                                simtime
                        pl = json.loads(body)
                        rule, tg, cr = pl['rule'], pl['target'], \
                            pl['credentials']
                    else:
                        if not ct.startswith(CT_FORM):
                            return viol('request-encoding', content_type=ct), \
                                simtime
                        q = urllib.parse.parse_qs(body, strict_parsing=True)
                        rule = json.loads(q['rule'][0])
                        tg = json.loads(q['target'][0])
                        cr = json.loads(q['credentials'][0])
                except Exception as ex:      # noqa
                    return viol('request-encoding',
                                error=type(ex).__name__), simtime
                if rule != enforce_name:
                    return viol('payload-rule', sent=rule), simtime
                if tg != json.loads(json.dumps(plain_target)):
                    return viol('payload-target', sent=tg), simtime
                if cr != json.loads(json.dumps(creds_snapshot)):
                    return viol('payload-credentials', sent=cr), simtime
                cnt.hit('payloads_checked')
            # ---- caller's target untouched
            if set(target) != set(snapshot):
                return viol('target-mutated', keys=sorted(target)), simtime
            for k, v in snapshot.items():
                if k in opaque:
                    if target[k] is not v:
                        return viol('target-mutated', key=k), simtime
                elif target[k] != v:
                    return viol('target-mutated', key=k), simtime
            return None, simtime

        seq = d.get('seq') or [{}]
        ctx = None
        if d.get('ctx_steps'):
            # one RequestContext object, re-scoped between several calls
            from oslo_context import context as _ctx
            ctx = _ctx.RequestContext(user_id='u1', overwrite=False)
            cnt.hit('knob:context_object_reused')
            seq = [dict(s, ctx=c) for s, c in zip(
                seq + [{}] * len(d['ctx_steps']), d['ctx_steps'])]
        if len(seq) > 1:
            cnt.hit('knob:several_calls_on_one_enforcer')
        total = 0.0
        for step_no, step in enumerate(seq):
            del peer.requests[:]
            peer.faults_fired.clear()
            peer.clock = 0.0
            if step.get('options'):
                for k_, v_ in step['options'].items():
                    if k_ == 'tls':
                        cur['tls'].update(v_)
                    else:
                        cur[k_] = v_
                apply_options()
                cnt.hit('fault:option_changed_between_calls')
            if step.get('peers'):
                for u_, b_ in step['peers'].items():
                    if u_ in behaviours:
                        behaviours[u_] = dict(b_)
                cnt.hit('fault:peer_behaviour_changed_between_calls')
            if step.get('options') or step.get('peers'):
                script_peers()
            if ctx is not None:
                for k_, v_ in step.get('ctx', {}).items():
                    setattr(ctx, k_, v_)
                # what the library is documented to derive from a context
                snap = dict(ctx.to_policy_values())
                if snap.get('system_scope'):
                    snap['system'] = snap['system_scope']
                v, st = one_call(ctx, snap, set(ctx.roles or []), step_no)
            else:
                creds = copy.deepcopy(d['creds'])
                v, st = one_call(creds, copy.deepcopy(creds),
                                 set(creds['roles']), step_no)
            total += st
            if v is not None:
                v['call_no'] = step_no
                return v, total
        return None, total
    finally:
        logging.disable(saved_log[0])
        lg.setLevel(saved_log[1])
        lg.propagate = saved_log[2]
        simnet.use(None)
        simfs.use(None)


def execute(case, backend='sim', record=False):
    core.boot()
    simnet.install()
    dg = core.Digest()
    cnt = core.Counter()
    viol = None
    simtime = 0.0
    shapes = set()
    for j, d in enumerate(case['decisions']):
        v, st = run_decision(d, dg, cnt)
        simtime += st
        cnt.hit('decisions')
        shapes.add(d['variant'].split('@')[0].split(':', 1)[-1]
                   if not d['variant'].startswith('body') else 'body')
        if v is not None and viol is None:
            v['decision_index'] = j
            viol = v
            break
    return {'violation': viol, 'digest': dg.hex(), 'counters': dict(cnt),
            'states': sorted(shapes), 'simtime': simtime, 'events': dg.n,
            'observations': []}


# ------------------------------------------------------ engine interface

PROPS = ('C16',)
TIERS = {'C16': {'quick': [('plain', 1600)],
                 'thorough': [('plain', 120000)]}}


def make_case(base, prop, i, mode):
    return gen_case(base, i, mode)


def run_one(base, i, prop=None, mode='plain'):
    case = gen_case(base, i, mode)
    r = execute(case)
    return {'index': i, 'digest': r['digest'], 'violation': r['violation'],
            'counters': r['counters'], 'states': r['states'],
            'simtime': r['simtime'], 'events': r['events'],
            'nontrivial': r['counters'].get('requests', 0) > 0}


def case_size(case):
    return sum(1 + rast.size(d['rules'][d['pname']])
               for d in case['decisions'])


def shrink(case, sig, budget=300):
    calls = [0]

    def fails(c):
        calls[0] += 1
        v = execute(c)['violation']
        return v is not None and v['sig'] == sig

    v = execute(case)['violation']
    d = copy.deepcopy(case['decisions'][v['decision_index']])
    best = {'prop': 'C16', 'decisions': [d]}
    if not fails(best):
        return case, calls[0]
    changed = True
    while changed and calls[0] < budget:
        changed = False
        d = best['decisions'][0]
        for name in sorted(d['rules']):
            for cand in rast.simplifications(d['rules'][name]):
                if cand[0] in ('true', 'false') and name == d['pname'] and \
                        rast.size(d['rules'][name]) == 1:
                    continue
                d2 = copy.deepcopy(d)
                d2['rules'][name] = cand
                reach = leaves(d2['rules'][d2['pname']], d2['rules'])
                d2['peers'] = {u: b for u, b in d2['peers'].items()
                               if u in reach}
                if not reach and not sig.startswith('target'):
                    continue
                c2 = {'prop': 'C16', 'decisions': [d2]}
                if calls[0] < budget and fails(c2):
                    best = c2
                    changed = True
                    break
            if changed:
                break
    d = best['decisions'][0]
    for name in sorted(d['rules']):
        if name == d['pname']:
            continue
        d2 = copy.deepcopy(d)
        del d2['rules'][name]
        c2 = {'prop': 'C16', 'decisions': [d2]}
        if calls[0] < budget and fails(c2):
            best = c2
            d = d2
    return best, calls[0]


def sample_repr(case):
    d = case['decisions'][0]
    return {
        'policy': d['pname'],
        'rules': {n: rast.show(a) for n, a in d['rules'].items()},
        'target': d['target'], 'credentials': d['creds'],
        'remote_timeout': d['timeout'], 'content_type': d['content_type'],
        'tls': d['tls'],
        'peer_behaviour': {u: {k: (v if k != 'body' else v[:40])
                               for k, v in b.items()}
                           for u, b in d['peers'].items()},
        'variants_in_batch': [x['variant'] for x in case['decisions']][:60],
    }


META = {'C16': {
    'level': 'fault_enumeration',
    'technique': 'deterministic simulation of the remote peer below '
                 'requests.adapters.HTTPAdapter.send with fault enumeration '
                 '(every network/TLS-file fault kind at every remote-leaf '
                 'position, reply-body alphabet) judged by a three-valued '
                 'reference evaluation',
    'rule': 'one case = a seeded base decision (expression with http:/https: '
            'leaves under and/or/not/rule: aliases, scripted peer behaviour '
            'per leaf, timeout and content-type knobs, TLS files on SimFS, '
            'target with nested and opaque values) plus its enumeration: '
            'each of 8 network fault kinds at each remote-leaf position '
            '(alone, and stacked on the seeded faults), each of 5 TLS-file '
            'faults when an https leaf exists, and each of the 30 reply '
            'bodies at one leaf. evaluations counts cases (batches); '
            'coverage.decisions counts enforce() calls. Distinct = distinct '
            'event-log digest; non-trivial = at least one request reached '
            'the peer.',
    'states_measure': 'distinct fault/variant kinds exercised',
}}
ASSUMPTIONS = [
    'the stub below HTTPAdapter.send mirrors what requests/urllib3 do with a '
    'timeout, a missing/unreadable TLS file and a transport error; latency '
    'above the timeout actually passed raises the matching requests timeout',
    'status code and headers play no part in the decision (the property is '
    'stated on the body alone); redirects are not followed (no Location)',
    'left unconstrained: bodies with unbalanced/repeated quotes, non-ASCII '
    'bodies without a charset, evaluation order among leaves under faults',
]
COMPONENTS = {
    'real': ['oslo_policy (_external.py, _checks.py, parser, Enforcer)',
             'requests above HTTPAdapter.send (Session, PreparedRequest, '
             'body encoding, Response.text decoding)', 'oslo.config'],
    'stub': ['socket/TLS layer and the remote peer (SimNet)',
             'TLS certificate files (SimFS)'],
}
EXPECTED_PROBES = {'C16': ['ConnectTimeout', 'ReadTimeout',
                           'ConnectionError', 'SSLError',
                           'ChunkedEncodingError', 'slow_connect_timeout',
                           'slow_read_timeout', 'reply']}


def extra_coverage(prop, counters):
    return {'decisions': counters.get('decisions', 0),
            'requests_seen_by_peer': counters.get('requests', 0),
            'payloads_checked': counters.get('payloads_checked', 0),
            'kleene_results': {k[7:]: v for k, v in counters.items()
                               if k.startswith('kleene_')},
            'tls_file_states': {k: v for k, v in counters.items()
                                if k.startswith('tls_')}}
