"""Sensitivity catalogue: small patches that break a property while the
library still imports. Each is applied to a scratch copy by selftest.py.
'props' names the check(s) expected to report it."""

P = 'policy.py'
CH = '_cache_handler.py'
EX = '_external.py'
CK = '_checks.py'

MUTANTS = [
    # ------------------------------------------------------------ C09
    {'id': 'c09-no-sort', 'props': ['C09'], 'file': P,
     'old': "        policy_files.sort()\n",
     'new': "        pass\n"},
    {'id': 'c09-sort-casefold', 'props': ['C09'], 'file': P,
     'old': "        policy_files.sort()\n",
     'new': "        policy_files.sort(key=str.lower)\n"},
    {'id': 'c09-dotfiles-loaded', 'props': ['C09'], 'file': P,
     'old': "for policy_file in [p for p in policy_files if not "
            "p.startswith('.')]:",
     'new': "for policy_file in policy_files:"},
    {'id': 'c09-subdirs-walked', 'props': ['C09'], 'file': P,
     'old': "        policy_files = next(os.walk(path))[2]\n",
     'new': "        policy_files = [os.path.relpath(os.path.join(r, f), "
            "path)\n                        for r, _d, fs in os.walk(path) "
            "for f in fs]\n"},
    {'id': 'c09-dirs-reversed', 'props': ['C09'], 'file': P,
     'old': "                for path in existing_policy_dirs:\n",
     'new': "                for path in reversed(existing_policy_dirs):\n"},
    {'id': 'c09-defaults-overwrite-files', 'props': ['C09'], 'file': P,
     'old': "                if default.name in self.rules:\n"
            "                    continue\n",
     'new': "                if False:\n"
            "                    continue\n"},
    {'id': 'c09-json-fallback-when-configured', 'props': ['C09'], 'file': P,
     'old': "        elif location in [cfg.Locations.opt_default,\n"
            "                          cfg.Locations.set_default]:\n",
     'new': "        elif True:\n"},
    {'id': 'c09-ctor-policy-file-ignored', 'props': ['C09'], 'file': P,
     'old': "        self.policy_file = policy_file or "
            "pick_default_policy_file(\n",
     'new': "        self.policy_file = pick_default_policy_file(\n"},
    {'id': 'c09-scope-lost-when-overridden', 'props': ['C09'], 'file': P,
     'old': "                if registered_rule and "
            "registered_rule.scope_types:\n",
     'new': "                if (registered_rule and "
            "registered_rule.scope_types\n                        and rule "
            "not in self.file_rules):\n"},
    {'id': 'c09-missing-main-skips-dirs', 'props': ['C09'], 'file': P,
     'old': "            force_reload_policy_dirs = force_reload\n",
     'new': "            force_reload_policy_dirs = force_reload\n"
            "            if not self.policy_path:\n"
            "                return\n"},
    {'id': 'c09-json-spelling-differs', 'props': ['C09'], 'file': P,
     'old': "        parsed = jsonutils.loads(data)\n",
     'new': "        parsed = jsonutils.loads(data)\n"
            "        parsed = dict(sorted(parsed.items(), reverse=True)[:3])"
            "\n"},
    # ------------------------------------------------------------ C10
    {'id': 'c10-fix-reverted', 'props': ['C10'], 'file': P,
     'old': "            data = data or ''\n",
     'new': "            pass\n"},
    {'id': 'c10-dirs-not-reapplied-after-main', 'props': ['C10'], 'file': P,
     'old': "            if policy_file_rules_changed:\n"
            "                force_reload_policy_dirs = True\n",
     'new': "            if policy_file_rules_changed:\n"
            "                pass\n"},
    {'id': 'c10-dir-mtime-files-only', 'props': ['C10'], 'file': P,
     'old': "            files = [path] + [os.path.join(path, file) for "
            "file in\n                              os.listdir(path)]\n",
     'new': "            files = [os.path.join(path, file) for file in\n"
            "                     os.listdir(path)] or [path]\n"},
    {'id': 'c10-file-rules-never-reset', 'props': ['C10', 'C11'], 'file': P,
     'old': "        if overwrite:\n            self.file_rules = {}\n"
            "        parsed_file",
     'new': "        if False:\n            self.file_rules = {}\n"
            "        parsed_file"},
    {'id': 'c10-defaults-merged-once', 'props': ['C10'], 'file': P,
     'old': "            for default in self.registered_rules.values():\n"
            "                if default.deprecated_for_removal:",
     'new': "            _first = not getattr(self, '_merged_once', False)\n"
            "            self._merged_once = True\n"
            "            for default in (self.registered_rules.values()\n"
            "                            if _first else ()):\n"
            "                if default.deprecated_for_removal:"},
    {'id': 'c10-mtime-truncated', 'props': ['C10'], 'file': CH,
     'old': "    if not cache_info or mtime > cache_info.get('mtime', 0):",
     'new': "    if not cache_info or int(mtime) > int(cache_info.get("
            "'mtime', 0)):"},
    {'id': 'c10-dir-mtime-truncated', 'props': ['C10'], 'file': P,
     'old': "        if mtime > cache_info.get('mtime', 0):\n"
            "            cache_info['mtime'] = mtime\n            return True",
     'new': "        if int(mtime) > int(cache_info.get('mtime', 0)):\n"
            "            cache_info['mtime'] = mtime\n            return True"},
    {'id': 'c10-mtime-taken-after-read', 'props': ['C10'], 'file': CH,
     'old': "        cache_info['mtime'] = mtime\n",
     'new': "        cache_info['mtime'] = os.path.getmtime(filename)\n"},
    {'id': 'c10-dir-files-cached', 'props': ['C10'], 'file': P,
     'old': "                        path, self._load_policy_file, True, "
            "False)\n",
     'new': "                        path, self._load_policy_file, False, "
            "False)\n"},
    {'id': 'c10-main-not-reloaded-on-dir-change', 'props': ['C10'],
     'file': P,
     'old': "                    if not policy_file_rules_changed and "
            "self.overwrite:\n",
     'new': "                    if False:\n"},
    {'id': 'c10-no-reset-without-main', 'props': ['C10'], 'file': P,
     'old': "                elif self.overwrite:\n"
            "                    self.rules = Rules(default_rule="
            "self.default_rule)\n",
     'new': "                elif False:\n"
            "                    self.rules = Rules(default_rule="
            "self.default_rule)\n"},
    {'id': 'c10-vanished-main-keeps-cache', 'props': ['C10'], 'file': CH,
     'old': "        return True, {}\n",
     'new': "        if filename in cache and 'data' in cache[filename]:\n"
            "            return False, cache[filename]['data']\n"
            "        return True, {}\n"},
    # ------------------------------------------------------------ C11
    {'id': 'c11-alias-exception-dropped', 'props': ['C11'], 'file': P,
     'old': "                str(file_rule.check) != 'rule:%s' % "
            "default.name and\n",
     'new': ""},
    {'id': 'c11-flag-inverted', 'props': ['C11'], 'file': P,
     'old': "            not self.conf.oslo_policy.enforce_new_defaults\n",
     'new': "            self.conf.oslo_policy.enforce_new_defaults\n"},
    {'id': 'c11-flag-ignored', 'props': ['C11'], 'file': P,
     'old': "            not self.conf.oslo_policy.enforce_new_defaults\n"
            "            and deprecated_rule.check_str",
     'new': "            deprecated_rule.check_str"},
    {'id': 'c11-or-never', 'props': ['C11'], 'file': P,
     'old': "            and deprecated_rule.check_str != "
            "default.check_str\n",
     'new': "            and deprecated_rule.check_str == "
            "default.check_str\n"},
    {'id': 'c11-old-override-ored', 'props': ['C11'], 'file': P,
     'old': "                return self.file_rules[deprecated_rule.name]"
            ".check\n",
     'new': "                return OrCheck([default.check, self.file_rules["
            "deprecated_rule.name].check])\n"},
    {'id': 'c11-old-name-registered', 'props': ['C11'], 'file': P,
     'old': "        deprecated_rule = default.deprecated_rule\n"
            "        deprecated_reason = (",
     'new': "        deprecated_rule = default.deprecated_rule\n"
            "        self.rules.setdefault(deprecated_rule.name,\n"
            "                              deprecated_rule.check)\n"
            "        deprecated_reason = ("},
    {'id': 'c11-old-override-only-main-file', 'props': ['C11'], 'file': P,
     'old': "            self.file_rules[name] = file_rule\n",
     'new': "            if overwrite or name in self.registered_rules:\n"
            "                self.file_rules[name] = file_rule\n"},
    {'id': 'c11-and-instead-of-or', 'props': ['C11'], 'file': P,
     'old': "            return OrCheck([default.check, "
            "deprecated_rule.check])\n",
     'new': "            return AndCheck([default.check, "
            "deprecated_rule.check])\n"},
]

HTTP_RET = ("                return r.text.lstrip('\"').rstrip('\"') == 'True'\n"
            "        except Timeout:\n"
            "            raise RuntimeError(\"Timeout in REST API call\")\n\n"
            "    @staticmethod")
HTTPS_TAIL = ("                                  timeout=timeout)\n"
              "            ) as r:\n"
              "                return r.text.lstrip('\"').rstrip('\"') == "
              "'True'\n"
              "        except Timeout:\n"
              "            raise RuntimeError(\"Timeout in REST API call\")\n")

MUTANTS += [
    # ------------------------------------------------------------ C16
    {'id': 'c16-case-insensitive', 'props': ['C16'], 'file': EX,
     'old': HTTP_RET,
     'new': HTTP_RET.replace("== 'True'", ".lower() == 'true'", 1)},
    {'id': 'c16-https-case-insensitive', 'props': ['C16'], 'file': EX,
     'old': HTTPS_TAIL,
     'new': HTTPS_TAIL.replace("== \n", "==\n").replace(
         "rstrip('\"') == 'True'", "rstrip('\"').title() == 'True'")},
    {'id': 'c16-substring-match', 'props': ['C16'], 'file': EX,
     'old': HTTP_RET,
     'new': HTTP_RET.replace(
         "return r.text.lstrip('\"').rstrip('\"') == 'True'",
         "return 'True' in r.text")},
    {'id': 'c16-strips-whitespace', 'props': ['C16'], 'file': EX,
     'old': HTTP_RET,
     'new': HTTP_RET.replace("return r.text.lstrip",
                             "return r.text.strip().lstrip")},
    {'id': 'c16-requires-2xx', 'props': ['C16'], 'file': EX,
     'old': HTTP_RET,
     'new': HTTP_RET.replace("return r.text", "return r.ok and r.text")},
    {'id': 'c16-timeout-denies', 'props': ['C16'], 'file': EX,
     'old': HTTP_RET,
     'new': HTTP_RET.replace(
         'raise RuntimeError("Timeout in REST API call")', 'return False')},
    {'id': 'c16-https-timeout-allows', 'props': ['C16'], 'file': EX,
     'old': HTTPS_TAIL,
     'new': HTTPS_TAIL.replace(
         'raise RuntimeError("Timeout in REST API call")', 'return True')},
    {'id': 'c16-transport-error-denies', 'props': ['C16'], 'file': EX,
     'old': HTTP_RET,
     'new': HTTP_RET.replace(
         "        except Timeout:\n",
         "        except requests.exceptions.ConnectionError:\n"
         "            return False\n        except Timeout:\n")},
    {'id': 'c16-timeout-not-passed', 'props': ['C16'], 'file': EX,
     'old': "requests.post(url, json=json, data=data, timeout=timeout)",
     'new': "requests.post(url, json=json, data=data)"},
    {'id': 'c16-timeout-doubled', 'props': ['C16'], 'file': EX,
     'old': "requests.post(url, json=json, data=data, timeout=timeout)",
     'new': "requests.post(url, json=json, data=data, timeout=timeout * 2)"},
    {'id': 'c16-not-drops-policy-name', 'props': ['C16'], 'file': CK,
     'old': "        return not _check(self.rule, target, cred, enforcer, "
            "current_rule)\n",
     'new': "        return not _check(self.rule, target, cred, enforcer, "
            "None)\n"},
    {'id': 'c16-alias-name-forwarded', 'props': ['C16'], 'file': CK,
     'old': "                enforcer=enforcer,\n"
            "                current_rule=current_rule,\n"
            "            )\n        except KeyError:",
     'new': "                enforcer=enforcer,\n"
            "                current_rule=self.match,\n"
            "            )\n        except KeyError:"},
    {'id': 'c16-or-drops-policy-name', 'props': ['C16'], 'file': CK,
     'old': "            if _check(rule, target, cred, enforcer, "
            "current_rule):\n                return True\n",
     'new': "            if _check(rule, target, cred, enforcer, "
            "None):\n                return True\n"},
    {'id': 'c16-target-blanked-in-place', 'props': ['C16'], 'file': EX,
     'old': "        temp_target = copy.deepcopy(target)\n",
     'new': "        temp_target = target\n"},
    {'id': 'c16-creds-wrong-key', 'props': ['C16'], 'file': EX,
     'old': "                    'credentials': jsonutils.dumps(creds)}",
     'new': "                    'creds': jsonutils.dumps(creds)}"},
    {'id': 'c16-json-target-dropped', 'props': ['C16'], 'file': EX,
     'old': "                    'target': temp_target,\n",
     'new': "                    'target': {k: v for k, v in "
            "temp_target.items()\n                               if not "
            "isinstance(v, (dict, list))},\n"},
    {'id': 'c16-encoding-swapped', 'props': ['C16'], 'file': EX,
     'old': "        if (enforcer.conf.oslo_policy.remote_content_type ==\n",
     'new': "        if (enforcer.conf.oslo_policy.remote_content_type !=\n"},
    {'id': 'c16-url-not-filled', 'props': ['C16'], 'file': EX,
     'old': "        url = ('http:' + self.match) % target\n",
     'new': "        url = ('http:' + self.match) % dict(target, id=0)\n"},
    {'id': 'c16-cert-precheck-swallowed', 'props': ['C16'], 'file': EX,
     'old': "            if not os.access(cert_file, os.R_OK):\n"
            "                raise RuntimeError(\n"
            "                    _(\"Unable to access ssl cert_file  : %s\")"
            " % cert_file)\n",
     'new': "            if not os.access(cert_file, os.R_OK):\n"
            "                return False\n"},
]

OR_RET = ("            return OrCheck([default.check, "
          "deprecated_rule.check])\n")

MUTANTS += [
    # ------------------------------------------------------------ C12
    {'id': 'c12-merge-stored-on-private-copy', 'props': ['C12'], 'file': P,
     'old': OR_RET,
     'new': "            default._check = OrCheck([default.check, "
            "deprecated_rule.check])\n            return default._check\n"},
    {'id': 'c12-no-deepcopy-merge-in-place', 'props': ['C12'],
     'edits': [
         (P, OR_RET,
          "            default._check = OrCheck([default.check, "
          "deprecated_rule.check])\n            return default._check\n"),
         (P, "        self.registered_rules[default.name] = "
             "copy.deepcopy(default)\n",
          "        self.registered_rules[default.name] = default\n")]},
    {'id': 'c12-add-check-on-default-tree', 'props': ['C12'], 'file': P,
     'old': OR_RET,
     'new': "            if isinstance(default.check, OrCheck):\n"
            "                return default.check.add_check("
            "deprecated_rule.check)\n" + OR_RET},
    {'id': 'c12-no-deepcopy-add-check', 'props': ['C12'],
     'edits': [
         (P, OR_RET,
          "            if isinstance(default.check, OrCheck):\n"
          "                return default.check.add_check("
          "deprecated_rule.check)\n" + OR_RET),
         (P, "        self.registered_rules[default.name] = "
             "copy.deepcopy(default)\n",
          "        self.registered_rules[default.name] = default\n")]},
    {'id': 'c12-process-global-merge-cache', 'props': ['C12'],
     'edits': [
         (P, "LOG = logging.getLogger(__name__)\n",
          "LOG = logging.getLogger(__name__)\n_MERGED = {}\n"),
         (P, "                    check = self._handle_deprecated_rule("
             "default)\n",
          "                    check = _MERGED.setdefault(\n"
          "                        default.name, "
          "self._handle_deprecated_rule(default))\n")]},
    {'id': 'c12-process-global-file-cache', 'props': ['C12'],
     'edits': [
         (P, "LOG = logging.getLogger(__name__)\n",
          "LOG = logging.getLogger(__name__)\n_FILE_CACHE = {}\n"),
         (P, "        self._file_cache = {}\n",
          "        self._file_cache = _FILE_CACHE\n")]},
    {'id': 'c12-scope-types-normalised-in-place', 'props': ['C12'],
     'edits': [
         (P, "        self.registered_rules[default.name] = "
             "copy.deepcopy(default)\n",
          "        if default.scope_types:\n"
          "            default.scope_types.sort()\n"
          "        self.registered_rules[default.name] = "
          "copy.deepcopy(default)\n")]},
]

SYNC_ENF = "    @_synchronized\n    def enforce(\n"
SYNC_LOAD = "    @_synchronized\n    def load_rules(self, force_reload=False):\n"
WRAP = ("        with self._lock:\n"
        "            return method(self, *args, **kwargs)\n")

MUTANTS += [
    # ------------------------------------------------------------ C20
    {'id': 'c20-decision-outside-lock', 'props': ['C20'], 'file': P,
     'old': SYNC_ENF, 'new': "    def enforce(\n"},
    {'id': 'c20-load-outside-lock', 'props': ['C20'], 'file': P,
     'old': SYNC_LOAD,
     'new': "    def load_rules(self, force_reload=False):\n",
     'may_be_equivalent': True},
    {'id': 'c20-fix-reverted', 'props': ['C20'],
     'edits': [(P, SYNC_ENF, "    def enforce(\n"),
               (P, SYNC_LOAD,
                "    def load_rules(self, force_reload=False):\n")]},
    {'id': 'c20-lock-per-call', 'props': ['C20'], 'file': P,
     'old': WRAP,
     'new': "        with threading.RLock():\n"
            "            return method(self, *args, **kwargs)\n"},
    {'id': 'c20-trylock-and-carry-on', 'props': ['C20'], 'file': P,
     'old': WRAP,
     'new': "        got = self._lock.acquire(blocking=False)\n"
            "        try:\n"
            "            return method(self, *args, **kwargs)\n"
            "        finally:\n"
            "            if got:\n"
            "                self._lock.release()\n"},
    {'id': 'c20-non-reentrant-lock', 'props': ['C20'], 'file': P,
     'old': "        self._lock = threading.RLock()\n",
     'new': "        self._lock = threading.Lock()\n"},
    {'id': 'c20-lock-dropped-for-reload-free-calls', 'props': ['C20'],
     'file': P,
     'old': WRAP,
     'new': "        if method.__name__ == 'enforce' and self.rules:\n"
            "            return method(self, *args, **kwargs)\n" + WRAP},
]

EVENT_GATE = '''class _Monitor:
    """Re-entrant monitor built on an 'idle' event."""

    def __init__(self):
        self._idle = threading.Event()
        self._idle.set()
        self._owner = None
        self._depth = 0

    def __enter__(self):
        me = threading.get_ident()
        if self._owner != me:
            self._idle.wait()
            self._idle.clear()
            self._owner = me
        self._depth += 1
        return self

    def __exit__(self, *exc):
        self._depth -= 1
        if self._depth == 0:
            self._owner = None
            self._idle.set()


def _synchronized(method):
'''

MUTANTS += [
    # needs the scheduler's cooperative Event: two threads may both pass
    # wait() before either clears the flag (check-then-act)
    {'id': 'c20-event-gate-check-then-act', 'props': ['C20'],
     'edits': [(P, "def _synchronized(method):\n", EVENT_GATE),
               (P, "        self._lock = threading.RLock()\n",
                "        self._lock = _Monitor()\n")]},
    {'id': 'c20-semaphore-two-permits', 'props': ['C20'], 'file': P,
     'old': "        self._lock = threading.RLock()\n",
     'new': "        self._lock = threading.Semaphore(2)\n"},
]
