"""Run registered checks against the seeded changes kept under
/verif/seeded/<id>/ (patch.diff + demonstration + meta.json).

  run.py seeded                 every seeded change, the check(s) named in
                                its meta.json
  run.py seeded <id> [...]      chosen ones
  run.py seeded --all-checks    every check against every change

Each change is applied to a scratch git worktree of /repo outside /repo and
/verif (removed afterwards); the checks read it through VERIF_REPO and write
their evidence/replays under the scratch directory, so /repo and the
committed evidence are never touched. Development tool; not registered.
"""
import json
import os
import shutil
import subprocess
import sys
import tempfile
import time

from sim import core

ALL = ('C09', 'C10', 'C11', 'C12', 'C16', 'C20')


def worktree_with(patch):
    d = tempfile.mkdtemp(prefix='verif_seed_')
    os.rmdir(d)
    subprocess.run(['git', '-C', '/repo', 'worktree', 'add', '-q',
                    '--detach', d, 'HEAD'], check=True)
    if patch:
        subprocess.run(['git', '-C', d, 'apply', patch], check=True)
    return d


def remove(d):
    subprocess.run(['git', '-C', '/repo', 'worktree', 'remove', '--force',
                    d], check=False)
    shutil.rmtree(d, ignore_errors=True)
    subprocess.run(['git', '-C', '/repo', 'worktree', 'prune'], check=False)


def run_check(d, prop, scale, tier='quick'):
    env = dict(os.environ)
    env.update(VERIF_REPO=d, VERIF_OUT=os.path.join(d, '_verif_out'),
               VERIF_SCALE=str(scale), PYTHONDONTWRITEBYTECODE='1')
    t = time.time()
    out = subprocess.run(
        [sys.executable, os.path.join(core.VERIF, 'sim', 'run.py'),
         'check', prop, '--tier', tier],
        env=env, capture_output=True, text=True, timeout=7200)
    return out.returncode, out.stdout + out.stderr[-1500:], time.time() - t


def main_refactors(argv):
    """run.py seeded --refactors [ids]: behaviour-preserving refactorings
    kept under /verif/refactors/<id>/patch.diff; every check must stay
    quiet on them (exit 0, no VIOLATION line)."""
    scale = float(os.environ.get('VERIF_SEEDED_SCALE', '1'))
    ids = [a for a in argv if not a.startswith('--')]
    root = os.path.join(core.VERIF, 'refactors')
    todo = sorted(x for x in os.listdir(root)
                  if os.path.isdir(os.path.join(root, x))
                  and (not ids or x in ids))
    ok = True
    for rid in todo:
        d = worktree_with(os.path.join(root, rid, 'patch.diff'))
        try:
            mp = os.path.join(root, rid, 'meta.json')
            checks = ALL
            if os.path.exists(mp) and '--all-checks' not in argv:
                checks = json.load(open(mp)).get('checks', ALL)
            for p in checks:
                rc, out, dt = run_check(d, p, scale)
                quiet = rc == 0 and 'VIOLATION' not in out
                print('%-34s %-4s %s exit=%d %.0fs' % (
                    rid, p, 'quiet' if quiet else 'ALARM', rc, dt),
                    flush=True)
                if not quiet:
                    ok = False
                    print('\n'.join(ln for ln in out.splitlines()
                                    if 'VIOLATION' in ln or 'signature' in ln
                                    or 'HARNESS' in ln)[:1500])
        finally:
            remove(d)
    return 0 if ok else 1


def main(argv):
    if '--refactors' in argv:
        return main_refactors(argv)
    all_checks = '--all-checks' in argv
    scale = float(os.environ.get('VERIF_SEEDED_SCALE', '1'))
    ids = [a for a in argv if not a.startswith('--')]
    root = os.path.join(core.VERIF, 'seeded')
    todo = sorted(x for x in os.listdir(root)
                  if os.path.isdir(os.path.join(root, x))
                  and (not ids or x in ids))
    ok = True
    for sid in todo:
        meta = json.load(open(os.path.join(root, sid, 'meta.json')))
        props = ALL if all_checks else meta.get('checks_expected',
                                               [meta['property']])
        d = worktree_with(os.path.join(root, sid, 'patch.diff'))
        try:
            for p in props:
                rc, out, dt = run_check(d, p, scale)
                sig = ''
                for ln in out.splitlines():
                    if ln.strip().startswith('signature='):
                        sig = ln.strip()
                        break
                caught = rc == 1 and 'VIOLATION property=' + p in out
                import re
                m = re.search(r'(\d+) runs .*?(\d+) violating runs', out)
                frac = '%s/%s runs violate' % (m.group(2), m.group(1)) \
                    if m else ''
                print('%-28s %-4s %s exit=%d %.0fs %s %s' % (
                    sid, p, 'CAUGHT' if caught else 'missed', rc, dt, frac,
                    sig), flush=True)
                if rc == 2:
                    print(out[-1500:])
                if p in meta.get('checks_expected', [meta['property']]) \
                        and not caught and not meta.get('known_miss'):
                    ok = False
        finally:
            remove(d)
    return 0 if ok else 1
