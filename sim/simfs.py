"""SimFS + SimClock: the disk seam.

The shim sits below the helpers the library uses (os.path.exists/isdir/
getmtime, os.walk, glob, pathlib, oslo.config's find_file): os.stat, os.lstat,
os.listdir, os.scandir, os.access and builtins.open/io.open are replaced by
functions that route by path prefix -- paths under the active SimFS root go to
the in-memory file system, everything else to the real call.

POSIX semantics the library can observe:

  op                         file mtime        parent-dir mtime
  create                     now               now
  rewrite in place / touch   now               unchanged
  replace via rename         now (new inode)   now
  unlink                     -                 now

listdir/scandir return entries in an order drawn from the run's own PRNG
(fresh permutation per call).  The clock never moves by itself: the operator
advances it explicitly before every edit.
"""
import builtins
import errno
import io
import os
import posixpath
import shutil
import stat as statmod
import tempfile

ROOT = '/simfs'

_real = {
    'stat': os.stat, 'lstat': os.lstat, 'listdir': os.listdir,
    'scandir': os.scandir, 'access': os.access, 'open': builtins.open,
    'io_open': io.open, 'readlink': os.readlink,
}

_CUR = [None]


def current():
    return _CUR[0]


def use(fs):
    _CUR[0] = fs


class SimFS:
    """In-memory file system with an explicit clock."""

    kind = 'sim'

    def __init__(self, rng, t0=1000.0, root=ROOT, digest=None):
        self.root = root
        self.rng = rng
        self.now = float(t0)
        self.simtime = 0.0
        self.files = {}            # path -> [text, mtime, mode]
        self.dirs = {root: self.now}   # path -> mtime
        self.links = {}            # path -> [target path, mtime]
        self.calls = 0
        self.by_kind = {}
        self.hook = None           # hook(kind, path) before each routed call
        self.digest = digest
        self.shuffled_listings = 0  # listings whose order != sorted order
        self.listings = 0

    # ---- clock
    def advance(self, dt):
        if dt <= 0:
            raise ValueError('clock must advance')
        self.now += dt
        self.simtime += dt

    # ---- operator-side operations (never routed through the hook)
    def mkdir(self, p):
        if p in self.dirs:
            return
        parent = posixpath.dirname(p)
        if parent not in self.dirs:
            self.mkdir(parent)
        self.dirs[p] = self.now
        self.dirs[parent] = self.now

    def symlink(self, p, target):
        """p -> target (an absolute SimFS path of a file or directory)"""
        parent = posixpath.dirname(p)
        if parent not in self.dirs:
            self.mkdir(parent)
        self.links[p] = [target, self.now]
        self.dirs[parent] = self.now

    def _follow(self, p):
        n = 0
        while p in self.links and n < 8:
            p = self.links[p][0]
            n += 1
        return p

    def write(self, p, text, mode=0o644):
        """create, or rewrite in place (through a symlink if p is one)"""
        p = self._follow(p)
        if p in self.files:
            self.files[p][0] = text
            self.files[p][1] = self.now
        else:
            parent = posixpath.dirname(p)
            if parent not in self.dirs:
                self.mkdir(parent)
            self.files[p] = [text, self.now, mode]
            self.dirs[parent] = self.now

    def replace(self, p, text):
        """write a temp file and rename it over p"""
        parent = posixpath.dirname(p)
        if parent not in self.dirs:
            self.mkdir(parent)
        mode = self.files[p][2] if p in self.files else 0o644
        self.links.pop(p, None)      # rename replaces the link itself
        self.files[p] = [text, self.now, mode]
        self.dirs[parent] = self.now

    def touch(self, p):
        self.files[self._follow(p)][1] = self.now

    def get_mtime(self, p):
        return self.files[self._follow(p)][1]

    def set_mtime(self, p, m):
        """cp -p / rsync -t / touch -r: a content change that keeps the
        modification time"""
        self.files[self._follow(p)][1] = m

    def unlink(self, p):
        if p in self.links:
            del self.links[p]        # the target stays
        else:
            del self.files[p]
        self.dirs[posixpath.dirname(p)] = self.now

    def chmod(self, p, mode):
        self.files[p][2] = mode

    def exists(self, p):
        p = self._follow(p)
        return p in self.files or p in self.dirs

    def read(self, p):
        return self.files[self._follow(p)][0]

    def snapshot(self):
        return ({p: tuple(v) for p, v in self.files.items()}, dict(self.dirs))

    def close(self):
        pass

    # ---- syscall side
    def _pre(self, kind, p):
        self.calls += 1
        self.by_kind[kind] = self.by_kind.get(kind, 0) + 1
        if self.hook is not None:
            self.hook(kind, p)

    def _log(self, *ev):
        if self.digest is not None:
            self.digest.add(*ev)

    def _names(self, d):
        n = sorted(posixpath.basename(x) for x in
                   list(self.files) + list(self.dirs) + list(self.links)
                   if x != d and posixpath.dirname(x) == d)
        if len(n) > 1:
            s = list(n)
            self.rng.shuffle(n)
            self.listings += 1
            if n != s:
                self.shuffled_listings += 1
        return n

    def sys_lstat(self, p):
        if p in self.links:
            self._pre('lstat', p)
            self._log('lstat', p, 'link')
            return _mkstat(statmod.S_IFLNK | 0o777, self.links[p][1],
                           len(self.links[p][0]))
        return self.sys_stat(p)

    def sys_readlink(self, p):
        self._pre('readlink', p)
        if p not in self.links:
            raise OSError(errno.EINVAL, 'Invalid argument', p)
        return self.links[p][0]

    def sys_stat(self, p):
        self._pre('stat', p)
        p = self._follow(p)
        if p in self.files:
            f = self.files[p]
            r = _mkstat(statmod.S_IFREG | f[2], f[1], len(f[0]))
            self._log('stat', p, f[1])
            return r
        if p in self.dirs:
            self._log('stat', p, self.dirs[p])
            return _mkstat(statmod.S_IFDIR | 0o755, self.dirs[p])
        self._log('stat', p, None)
        raise FileNotFoundError(errno.ENOENT, 'No such file or directory', p)

    def sys_listdir(self, p):
        self._pre('listdir', p)
        p = self._follow(p)
        if p in self.files:
            raise NotADirectoryError(errno.ENOTDIR, 'Not a directory', p)
        if p not in self.dirs:
            self._log('listdir', p, None)
            raise FileNotFoundError(errno.ENOENT,
                                    'No such file or directory', p)
        n = self._names(p)
        self._log('listdir', p, n)
        return n

    def sys_scandir(self, p):
        self._pre('scandir', p)
        p = self._follow(p)
        if p in self.files:
            raise NotADirectoryError(errno.ENOTDIR, 'Not a directory', p)
        if p not in self.dirs:
            self._log('scandir', p, None)
            raise FileNotFoundError(errno.ENOENT,
                                    'No such file or directory', p)
        n = self._names(p)
        self._log('scandir', p, n)
        return _ScanDir([_DirEntry(self, p, x) for x in n])

    def sys_open(self, p, mode='r', *a, **k):
        self._pre('open', p)
        if any(c in mode for c in 'wax+'):
            raise PermissionError(errno.EROFS, 'SimFS is read-only for the '
                                  'system under test', p)
        p = self._follow(p)
        if p in self.dirs:
            raise IsADirectoryError(errno.EISDIR, 'Is a directory', p)
        if p not in self.files:
            self._log('open', p, None)
            raise FileNotFoundError(errno.ENOENT,
                                    'No such file or directory', p)
        f = self.files[p]
        if not f[2] & 0o444:
            self._log('open', p, 'EACCES')
            raise PermissionError(errno.EACCES, 'Permission denied', p)
        self._log('open', p, len(f[0]))
        if 'b' in mode:
            return io.BytesIO(f[0].encode('utf-8'))
        return io.StringIO(f[0])

    def sys_access(self, p, mode):
        self._pre('access', p)
        p = self._follow(p)
        if p in self.dirs:
            r = True
        elif p in self.files:
            m = self.files[p][2]
            r = True
            if mode & os.R_OK and not m & 0o444:
                r = False
            if mode & os.W_OK and not m & 0o222:
                r = False
            if mode & os.X_OK and not m & 0o111:
                r = False
        else:
            r = False
        self._log('access', p, mode, r)
        return r


def _mkstat(mode, mtime, size=0):
    ns = int(round(mtime * 1e9))
    return os.stat_result((mode, 1, 1, 1, 0, 0, size,
                           int(mtime), int(mtime), int(mtime),
                           mtime, mtime, mtime, ns, ns, ns))


class _DirEntry:
    def __init__(self, fs, d, n):
        self._fs = fs
        self.name = n
        self.path = posixpath.join(d, n)

    def is_dir(self, follow_symlinks=True):
        p = self._fs._follow(self.path) if follow_symlinks else self.path
        return p in self._fs.dirs

    def is_file(self, follow_symlinks=True):
        p = self._fs._follow(self.path) if follow_symlinks else self.path
        return p in self._fs.files

    def is_symlink(self):
        return self.path in self._fs.links

    def is_junction(self):
        return False

    def stat(self, follow_symlinks=True):
        if follow_symlinks:
            return self._fs.sys_stat(self.path)
        return self._fs.sys_lstat(self.path)

    def inode(self):
        return 1

    def __fspath__(self):
        return self.path

    def __repr__(self):
        return '<SimDirEntry %r>' % self.name


class _ScanDir:
    def __init__(self, entries):
        self._it = iter(entries)

    def __iter__(self):
        return self

    def __next__(self):
        return next(self._it)

    def close(self):
        pass

    def __enter__(self):
        return self

    def __exit__(self, *a):
        pass


def _route(p):
    fs = _CUR[0]
    if fs is None or fs.kind != 'sim':
        return None, None
    try:
        p = os.fspath(p)
    except TypeError:
        return None, None
    if isinstance(p, bytes):
        return None, None
    r = fs.root
    if p == r or p.startswith(r + '/'):
        return fs, posixpath.normpath(p)
    return None, None


def _stat(p, *a, **k):
    fs, q = _route(p)
    if fs is None:
        return _real['stat'](p, *a, **k)
    if k.get('follow_symlinks') is False:
        return fs.sys_lstat(q)
    return fs.sys_stat(q)


def _lstat(p, *a, **k):
    fs, q = _route(p)
    if fs is None:
        return _real['lstat'](p, *a, **k)
    return fs.sys_lstat(q)


def _readlink(p, *a, **k):
    fs, q = _route(p)
    if fs is None:
        return _real['readlink'](p, *a, **k)
    return fs.sys_readlink(q)


def _listdir(p='.'):
    fs, q = _route(p)
    if fs is None:
        return _real['listdir'](p)
    return fs.sys_listdir(q)


def _scandir(p='.'):
    fs, q = _route(p)
    if fs is None:
        return _real['scandir'](p)
    return fs.sys_scandir(q)


def _access(p, mode, *a, **k):
    fs, q = _route(p)
    if fs is None:
        return _real['access'](p, mode, *a, **k)
    return fs.sys_access(q, mode)


def _open(p, mode='r', *a, **k):
    fs, q = _route(p)
    if fs is None:
        return _real['open'](p, mode, *a, **k)
    return fs.sys_open(q, mode, *a, **k)


_installed = False


def install():
    global _installed
    if _installed:
        return
    _installed = True
    os.stat = _stat
    os.lstat = _lstat
    os.listdir = _listdir
    os.scandir = _scandir
    os.access = _access
    os.readlink = _readlink
    builtins.open = _open
    io.open = _open


class RealFS:
    """The same operator interface on a real scratch directory, used to
    validate SimFS: file and directory mtimes are set explicitly from the
    simulated clock with os.utime, following the table above."""

    kind = 'real'

    def __init__(self, t0=1000.0):
        self.root = tempfile.mkdtemp(prefix='verif_realfs_')
        self.now = float(t0)
        self.simtime = 0.0
        self.hook = None
        self.calls = 0
        self.by_kind = {}
        self.shuffled_listings = 0
        self.listings = 0
        self._utime(self.root)

    def _utime(self, p):
        os.utime(p, (self.now, self.now))

    def advance(self, dt):
        self.now += dt
        self.simtime += dt

    def mkdir(self, p):
        if os.path.isdir(p):
            return
        parent = os.path.dirname(p)
        if not os.path.isdir(parent):
            self.mkdir(parent)
        os.mkdir(p)
        self._utime(p)
        self._utime(parent)

    def write(self, p, text, mode=0o644):
        parent = os.path.dirname(p)
        if not os.path.isdir(parent):
            self.mkdir(parent)
        pm = os.stat(parent).st_mtime
        new = not os.path.exists(p)
        with _real['open'](p, 'w') as f:
            f.write(text)
        if new:
            os.chmod(p, mode)
        self._utime(p)
        if new:
            self._utime(parent)
        else:
            os.utime(parent, (pm, pm))

    def replace(self, p, text):
        parent = os.path.dirname(p)
        if not os.path.isdir(parent):
            self.mkdir(parent)
        tmp = p + '.tmp~'
        with _real['open'](tmp, 'w') as f:
            f.write(text)
        os.replace(tmp, p)
        self._utime(p)
        self._utime(parent)

    def symlink(self, p, target):
        parent = os.path.dirname(p)
        if not os.path.isdir(parent):
            self.mkdir(parent)
        os.symlink(target, p)
        os.utime(p, (self.now, self.now), follow_symlinks=False)
        self._utime(parent)

    def touch(self, p):
        self._utime(p)

    def get_mtime(self, p):
        return os.stat(p).st_mtime

    def set_mtime(self, p, m):
        os.utime(p, (m, m))

    def unlink(self, p):
        os.unlink(p)
        self._utime(os.path.dirname(p))

    def chmod(self, p, mode):
        os.chmod(p, mode)

    def exists(self, p):
        return os.path.exists(p)

    def close(self):
        shutil.rmtree(self.root, ignore_errors=True)
