"""Rule expressions as plain JSON-able trees, with a printer, a seeded
generator and an evaluator that never touches the library's parser.

  ['role', r] ['true'] ['false'] ['rule', n] ['not', x]
  ['and', [x, ...]] ['or', [x, ...]]
  ['http', url_template]            (C16 only)
  ['paren', x]                      x in redundant parentheses: another
                                    spelling of the same check
  ['flag', f]                       custom check class 'simflag:<f>'
"""
import json


def show(a, top=True):
    k = a[0]
    if k == 'role':
        return 'role:' + a[1]
    if k == 'true':
        return '@'
    if k == 'empty':
        return ''        # the empty check string (allow all); top level only
    if k == 'false':
        return '!'
    if k == 'rule':
        return 'rule:' + a[1]
    if k == 'http':
        return a[1]
    if k == 'flag':
        return 'simflag:' + a[1]
    if k == 'not':
        return 'not ' + show(a[1], False)
    if k == 'paren':
        return '(' + show(a[1], False) + ')'
    return '(' + (' %s ' % k).join(show(x, False) for x in a[1]) + ')'


class Unconstrained(Exception):
    """Evaluation touched something the property leaves open."""


def ev(a, roles, lookup):
    """Two-valued evaluation. lookup(name) -> AST, None (undefined: a
    reference to it denies) or raises Unconstrained."""
    k = a[0]
    if k == 'role':
        return a[1].lower() in roles
    if k == 'flag':
        return ('flag:' + a[1]) in roles
    if k == 'true' or k == 'empty':
        return True
    if k == 'false':
        return False
    if k == 'not':
        return not ev(a[1], roles, lookup)
    if k == 'paren':
        return ev(a[1], roles, lookup)
    if k == 'and':
        return all([ev(x, roles, lookup) for x in a[1]])
    if k == 'or':
        return any([ev(x, roles, lookup) for x in a[1]])
    if k == 'rule':
        t = lookup(a[1])
        return False if t is None else ev(t, roles, lookup)
    if k == 'http':
        # engines that use this evaluator script the peer to answer True
        return True
    raise ValueError(k)


def refs(a, out=None):
    out = set() if out is None else out
    k = a[0]
    if k == 'rule':
        out.add(a[1])
    elif k in ('not', 'paren'):
        refs(a[1], out)
    elif k in ('and', 'or'):
        for x in a[1]:
            refs(x, out)
    return out


def size(a):
    k = a[0]
    if k in ('not', 'paren'):
        return 1 + size(a[1])
    if k in ('and', 'or'):
        return 1 + sum(size(x) for x in a[1])
    return 1


def gen(rng, roles, refnames, depth=2):
    r = rng.random()
    if depth == 0 or r < 0.45:
        q = rng.random()
        if q < 0.68:
            r0 = rng.choice(roles)
            if r0.startswith('flag:'):
                # decided by a custom check class registered through
                # policy.register (three-argument __call__)
                return ['flag', r0[5:]]
            return ['role', r0]
        if q < 0.76:
            return ['true']
        if q < 0.84:
            return ['false']
        if refnames:
            return ['rule', rng.choice(refnames)]
        return ['role', rng.choice([x for x in roles
                                    if not x.startswith('flag:')])]
    if r < 0.6:
        return ['not', gen(rng, roles, refnames, depth - 1)]
    return [rng.choice(['and', 'or']),
            [gen(rng, roles, refnames, depth - 1)
             for _ in range(rng.randint(2, 3))]]


def simplifications(a):
    """Smaller candidates for shrinking (leaf replacements, sub-trees)."""
    k = a[0]
    if k in ('and', 'or'):
        for x in a[1]:
            yield x
        if len(a[1]) > 2:
            for i in range(len(a[1])):
                yield [k, a[1][:i] + a[1][i + 1:]]
    elif k in ('not', 'paren'):
        yield a[1]
    if k not in ('true', 'false', 'empty'):
        yield ['false']
        yield ['true']


STYLES = ('json', 'json_indent', 'yaml_dq', 'yaml_sq', 'yaml_flow',
          'yaml_doc')


def render(mapping, style):
    """Policy-file text for {name: AST}; every style parses to the same
    name -> check-string dict."""
    d = {n: show(a) for n, a in mapping.items()}
    if style == 'json':
        return json.dumps(d)
    if style == 'json_indent':
        return json.dumps(d, indent=4) + '\n'
    if style == 'yaml_flow':
        return '{' + ', '.join('"%s": "%s"' % kv for kv in d.items()) + '}\n'
    if not d:
        return {'yaml_dq': '', 'yaml_sq': '# no overrides\n',
                'yaml_doc': '---\n'}[style]
    if style == 'yaml_dq':
        return ''.join('"%s": "%s"\n' % kv for kv in d.items())
    if style == 'yaml_sq':
        return '# policy overrides\n' + \
            ''.join("'%s': '%s'\n" % kv for kv in d.items())
    if style == 'yaml_doc':
        return '---\n' + ''.join('"%s":\n  "%s"\n' % kv for kv in d.items())
    raise ValueError(style)


def strip_parens(a):
    while a[0] == 'paren':
        a = a[1]
    return a
