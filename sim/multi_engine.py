"""C12 `multi`: one to three Enforcers as nodes of one process, all registered
from ONE shared list of RuleDefault / DocumentedRuleDefault / DeprecatedRule
objects, each with its own configuration and SimFS sub-tree. A seeded
scheduler interleaves loads, forced loads, enforcement and file edits.

Invariants after every step:
  immutability  a deep structural snapshot of the shared objects (fields,
                printed checks, shape and identity of the check trees,
                attribute set) is unchanged;
  idempotence   when none of enforcer i's files changed since its previous
                load, its effective policy (printed form per name, and
                decisions at full checks) equals that after the previous one;
  isolation     enforcer i decides exactly as a solo twin built from pristine
                defaults with i's files and options.

The threaded sub-mode runs the same loads in separate threads under the
line-level scheduler; sharing nothing mutable, every schedule must leave
each enforcer equal to its solo twin.
"""
import copy
import random

from sim import core
from sim import rast
from sim import simfs
from sim import world as W


def warm_up():
    core.boot()
    rng = random.Random('warm-up-c12')
    for mode in ('plain', 'threads'):
        execute(gen_case_rng(rng, mode))


# ----------------------------------------------------------- generation

def gen_case_rng(rng, mode):
    w0 = W.gen_world(rng, 'c12')
    n = rng.choice((1, 2, 2, 3, 3))
    worlds = [w0]
    for _ in range(n - 1):
        w = copy.deepcopy(w0)
        W.gen_layout(rng, w, 'c12')
        worlds.append(w)
    ops = []
    length = W.gen_len(rng)
    kinds = ['edit', 'load', 'force', 'enforce', 'check']
    weights = rng.choice(([3, 3, 2, 3, 2], [1, 4, 4, 3, 2], [4, 1, 1, 2, 2]))
    shared_rules = None
    if mode == 'plain' and rng.random() < 0.2:
        # the service also hands ONE Rules object to several enforcers
        # through set_rules(..., use_conf=True)
        shared_rules = W.gen_mapping(rng, w0, kmax=3)
    for _ in range(length):
        k = rng.choices(kinds, weights)[0]
        e = rng.randrange(n)
        if shared_rules is not None and rng.random() < 0.2:
            ops.append({'op': 'set_rules', 'e': e})
            continue
        if k == 'edit':
            op = W.gen_edit(rng, worlds[e])
            op['e'] = e
            if op['op'] in ('write', 'replace') and rng.random() < 0.12:
                # a content change that keeps the file's mtime: only a
                # forced load is obliged to notice it
                op['op'] = 'write_keep'
                ops.append(op)
                if rng.random() < 0.7:
                    # ... and the forced load that has to notice it
                    ops.append({'op': 'force', 'e': e})
                    ops.append({'op': 'check', 'e': e})
                continue
            ops.append(op)
        elif k == 'enforce':
            ops.append({'op': 'enforce', 'e': e, 'i': rng.randrange(1 << 16)})
        else:
            ops.append({'op': k, 'e': e})
    if mode == 'plain' and rng.random() < 0.12:
        # directed prefix: a dirs-only enforcer (no main policy file) whose
        # directory file changes content but not mtime, then a forced load
        e = rng.randrange(n)
        w = worlds[e]
        cands = sorted(p for p, f in w['files'].items()
                       if not p.startswith('etc/') or p.count('/') > 1)
        cands = [p for p in cands if '/.' not in p and W.SUBDIR not in p
                 and not w['files'][p].get('symlink')]
        if cands:
            for mname in W.MAIN_CANDIDATES:
                w['files'].pop('etc/' + mname, None)
            p = rng.choice(cands)
            ops = [{'op': 'check', 'e': e},
                   {'op': 'write_keep', 'e': e, 'path': p, 'dt': 1.0,
                    'rules': W.gen_mapping(rng, w), 'style':
                    w['files'][p]['style']},
                   {'op': 'force', 'e': e}, {'op': 'check', 'e': e}] + ops
    for e in range(n):
        ops.append({'op': 'check', 'e': e})
    case = {'prop': 'C12', 'worlds': worlds, 'ops': ops, 'mode': mode}
    if shared_rules is not None:
        case['shared_rules'] = shared_rules
    if mode == 'threads':
        # a schedule for the final concurrent load phase: every enforcer's
        # load+table runs in its own thread; segments of seeded length
        segs = []
        for _ in range(rng.randint(2, 8)):
            segs.append(['T', rng.randrange(n), rng.randint(1, 400)])
        case['plan'] = segs
        case['final_edits'] = []
        for e in range(n):
            if rng.random() < 0.7:
                op = W.gen_edit(rng, worlds[e])
                op['e'] = e
                case['final_edits'].append(op)
    return case


def gen_case(base, i, mode='plain'):
    if mode == 'xproc':
        case = gen_case_rng(core.rng_for(base, 'C12', i, 'xproc'), 'plain')
        decoy = gen_case_rng(core.rng_for(base, 'C12', i, 'xproc-decoy'),
                             'plain')
        decoy['ops'] = decoy['ops'][:12] + [
            {'op': 'check', 'e': e} for e in range(len(decoy['worlds']))]
        case['decoy'] = decoy
        case['mode'] = 'xproc'
        return case
    return gen_case_rng(core.rng_for(base, 'C12', i, mode), mode)


# ------------------------------------------------------------- snapshot

def snap_check(c, ids):
    """shape + identity of a check tree"""
    t = type(c).__name__
    ids.append(id(c))
    if hasattr(c, 'rules'):
        kids = c.rules
        return (t, id(kids), tuple(snap_check(x, ids) for x in kids))
    if hasattr(c, 'rule'):
        return (t, snap_check(c.rule, ids))
    return (t, getattr(c, 'kind', None), getattr(c, 'match', None))


def snap_rule(r):
    ids = []
    out = {'type': type(r).__name__, 'attrs': tuple(sorted(vars(r))),
           'name': r.name, 'check_str': r.check_str,
           'printed': str(r.check), 'tree': snap_check(r.check, ids),
           'check_id': id(r.check), 'node_ids': tuple(ids)}
    for f in ('description', 'deprecated_for_removal', 'deprecated_reason',
              'deprecated_since', 'operations'):
        if hasattr(r, f):
            out[f] = copy.deepcopy(getattr(r, f))
    if hasattr(r, 'scope_types'):
        out['scope_types'] = copy.deepcopy(r.scope_types)
    dr = getattr(r, 'deprecated_rule', None)
    if dr:
        out['deprecated_rule_id'] = id(dr)
        out['deprecated_rule'] = snap_rule(dr)
    else:
        out['deprecated_rule'] = dr if dr is None else type(dr).__name__
    return out


def snap_all(shared, dep_objs):
    return ([snap_rule(r) for r in shared], [snap_rule(d) for d in dep_objs])


def first_diff(a, b, path=''):
    if type(a) is not type(b):
        return path or 'type'
    if isinstance(a, dict):
        for k in sorted(set(a) | set(b)):
            if k not in a or k not in b:
                return path + '.' + k
            d = first_diff(a[k], b[k], path + '.' + k)
            if d:
                return d
        return None
    if isinstance(a, (list, tuple)):
        if len(a) != len(b):
            return path + '.len'
        for i, (x, y) in enumerate(zip(a, b)):
            d = first_diff(x, y, path + '[%d]' % i)
            if d:
                return d
        return None
    return None if a == b else (path or 'value')


def printed(e):
    out = {}
    for n, c in list(e.rules.items()):
        try:
            out[n] = str(c)
        except Exception as ex:      # noqa - e.g. RecursionError on a
            out[n] = 'EXC:' + type(ex).__name__   # runaway check tree
    return out


# ------------------------------------------------------------ execution

def execute(case, backend='sim', record=False):
    core.boot()
    worlds = case['worlds']
    dg = core.Digest()
    cnt = core.Counter()
    fs = simfs.SimFS(random.Random('fs:' + worlds[0]['fs_seed']),
                     t0=worlds[0]['t0'], digest=dg)
    simfs.use(fs)
    viol = None
    states = set()
    rec = []
    if case.get('decoy') is not None and backend != 'inner':
        return execute_pair(case)
    try:
        sims = [W.DiskSim(w, fs=fs, sub='e%d' % i, digest=dg)
                for i, w in enumerate(worlds)]
        # the service's own objects, shared by every enforcer; the
        # DeprecatedRule objects the service built are kept too (RuleDefault
        # is documented to copy them, the caller's must stay intact)
        from oslo_policy import policy
        spec = worlds[0]['defaults']
        dep_objs = {}
        shared = []
        for d in spec:
            kw = {}
            if d['dep']:
                g = d['dep']['group']
                if g not in dep_objs:
                    dep_objs[g] = policy.DeprecatedRule(
                        d['dep']['name'], rast.show(d['dep']['ast']),
                        deprecated_reason='superseded', deprecated_since='N')
                kw['deprecated_rule'] = dep_objs[g]
            if d['scope']:
                kw['scope_types'] = list(d['scope'])
            if d.get('removal'):
                kw.update(deprecated_for_removal=True,
                          deprecated_reason='going away',
                          deprecated_since='N')
            if d['documented']:
                shared.append(policy.DocumentedRuleDefault(
                    d['name'], rast.show(d['ast']), 'describes ' + d['name'],
                    [{'path': '/v1/x', 'method': 'GET'}], **kw))
            else:
                shared.append(policy.RuleDefault(
                    d['name'], rast.show(d['ast']), **kw))
        deps = [dep_objs[g] for g in sorted(dep_objs)]
        snap0 = snap_all(shared, deps)
        E = [s.make_enforcer(defaults=shared) for s in sims]
        service_rules = None
        if case.get('shared_rules') is not None:
            service_rules = policy.Rules.from_dict(
                {k: rast.show(v) for k, v in case['shared_rules'].items()})

        def snap_service_rules():
            return (sorted((n, id(c), str(c))
                           for n, c in service_rules.items()),
                    service_rules.default_rule)
        srules0 = snap_service_rules() if service_rules is not None else None
        detached = [False] * len(E)   # policy set by set_rules: no twin
        stale_ok = [False] * len(E)   # a same-mtime edit awaits a forced load
        prev = [None] * len(E)        # printed rules after previous load
        prev_table = [None] * len(E)
        dirty = [True] * len(E)

        def judge(step, sig, **detail):
            nonlocal viol
            if viol is None:
                detail.update(prop='C12', sig=sig, step=step)
                viol = detail

        def immut(step):
            now = snap_all(shared, deps)
            cnt.hit('snapshots_compared')
            if now != snap0:
                judge(step, 'shared-object-mutated',
                      where=first_diff(snap0, now))

        def after_load(step, i, table=None):
            cur = printed(E[i])
            if not dirty[i] and prev[i] is not None:
                cnt.hit('idempotence_checks')
                if cur != prev[i]:
                    bad = sorted(n for n in set(cur) | set(prev[i])
                                 if cur.get(n) != prev[i].get(n))
                    judge(step, 'not-idempotent:printed-policy',
                          enforcer=i, names=bad[:4],
                          before={n: prev[i].get(n) for n in bad[:2]},
                          after={n: cur.get(n) for n in bad[:2]})
                if table is not None and prev_table[i] is not None and \
                        table != prev_table[i]:
                    judge(step, 'not-idempotent:decisions', enforcer=i)
            elif dirty[i]:
                prev_table[i] = None
            prev[i] = cur
            if table is not None:
                prev_table[i] = table
            dirty[i] = False
            states.add(core.hashlib.sha256(
                repr(sorted(cur.items())).encode()).hexdigest()[:12])

        def full_check(step, i):
            t = sims[i].table(E[i])
            after_load(step, i, t)
            if detached[i] or stale_ok[i]:
                dg.add('check-without-twin', step, i, t)
                return
            twin = sims[i].make_enforcer()
            tt = sims[i].table(twin)
            cnt.hit('isolation_checks')
            cnt.hit('decisions_compared', len(t))
            dg.add('check', step, i, t, tt)
            if record:
                rec.append([step, i, t, sorted(printed(E[i]).items())])
            for p, a, b in zip(sims[i].probes, t, tt):
                if a != b:
                    judge(step, 'not-isolated', enforcer=i,
                          probe=[p[0], list(p[1]), p[2]], got=a, twin=b)
                    break

        for step, op in enumerate(case['ops']):
            k = op['op']
            i = op['e']
            others = [(j, printed(E[j])) for j in range(len(E)) if j != i]
            if k == 'set_rules':
                E[i].set_rules(service_rules, overwrite=True, use_conf=True)
                detached[i] = True
                dirty[i] = True
                prev_table[i] = None
                cnt.hit('probe:one_rules_object_given_to_enforcers')
            elif k in ('write', 'replace', 'empty', 'touch', 'unlink',
                       'write_keep'):
                if sims[i].apply(op):
                    dirty[i] = True
                    cnt.hit('edits')
                    if k == 'write_keep':
                        stale_ok[i] = True
            elif k in ('load', 'force'):
                if k == 'force' and detached[i]:
                    # documented: a forced reload overwrites rules given
                    # through set_rules() with the files' content again
                    # (when there is a file); the enforcer stays without
                    # a twin either way
                    dirty[i] = True
                    prev_table[i] = None
                if k == 'force' and stale_ok[i]:
                    # a forced load re-reads every file whatever its mtime
                    stale_ok[i] = False
                    dirty[i] = True
                    prev_table[i] = None
                    cnt.hit('probe:forced_load_after_same_mtime_edit')
                try:
                    E[i].load_rules(force_reload=(k == 'force'))
                    r = 'ok'
                except Exception as ex:      # noqa
                    r = 'EXC:' + type(ex).__name__
                dg.add('load', step, i, k, r)
                cnt.hit('loads' if k == 'load' else 'forced_loads')
                after_load(step, i)
            elif k == 'enforce':
                p = sims[i].probes[op['i'] % len(sims[i].probes)]
                r = sims[i].decide(E[i], p)
                dg.add('enforce', step, i, r)
                cnt.hit('enforces')
                after_load(step, i)
            elif k == 'check':
                full_check(step, i)
            else:
                raise core.HarnessError('unknown op %r' % k)
            immut(step)
            # an operation on enforcer i must leave every other enforcer's
            # rule store alone
            for j, before in others:
                cnt.hit('cross_influence_checks')
                now = printed(E[j])
                if now != before:
                    bad = sorted(n for n in set(now) | set(before)
                                 if now.get(n) != before.get(n))
                    judge(step, 'influences-other-enforcer', actor=i,
                          victim=j, names=bad[:4])
                    break
            if srules0 is not None and snap_service_rules() != srules0:
                judge(step, 'service-rules-object-mutated')
            if viol is not None:
                break

        if viol is None and case.get('mode') == 'threads':
            _threaded_phase(case, sims, E, fs, dg, cnt, judge)
            immut(len(case['ops']))
        for sm in sims:
            for k_, v_ in sm.counters.items():
                if k_.startswith(('knob:', 'fault:')):
                    cnt.hit(k_, v_)
        cnt.hit('fs_calls', fs.calls)
        cnt.hit('fault:readdir_order_not_sorted', fs.shuffled_listings)
        cnt.hit('enforcers', len(E))
        if len(E) > 1:
            cnt.hit('probe:multi_enforcer_runs')
        if deps and len(E) > 1:
            cnt.hit('probe:shared_deprecated_rule_across_enforcers')
        simtime = fs.simtime
    finally:
        simfs.use(None)
    return {'violation': viol, 'digest': dg.hex(), 'counters': dict(cnt),
            'states': sorted(states), 'simtime': simtime, 'events': dg.n,
            'observations': rec}


def execute_pair(case):
    """Cross-process differential run for state that outlives enforcers:
    a fresh interpreter (no warm-up, nothing of the library executed yet)
    forks two children; A executes the case alone, B first executes a decoy
    case (same policy names, other check strings, files and options) and
    then the case. Every decision table and printed rule store observed in
    the case must be identical in A and B: enforcers that existed earlier
    in the process must not influence later ones."""
    import json
    import os
    import subprocess
    import sys
    import tempfile
    fd, path = tempfile.mkstemp(prefix='verif_c12pair_', suffix='.json')
    try:
        with os.fdopen(fd, 'w') as f:
            json.dump(case, f)
        env = dict(os.environ)
        env['PYTHONHASHSEED'] = '0'
        out = subprocess.run(
            [sys.executable, os.path.join(core.VERIF, 'sim', 'run.py'),
             'c12pair', path], env=env, capture_output=True, text=True,
            timeout=600)
    finally:
        try:
            os.unlink(path)
        except OSError:
            pass
    if out.returncode != 0:
        raise core.HarnessError('c12pair failed: %s' % out.stderr[-1500:])
    res = json.loads(out.stdout.strip().splitlines()[-1])
    viol = None
    if res['a_violation'] is not None:
        viol = res['a_violation']
    elif res['diff'] is not None:
        viol = {'prop': 'C12', 'sig': 'influenced-by-earlier-enforcers',
                'step': res['diff'].get('step'), 'detail': res['diff']}
    cnt = {'xproc_pairs': 1, 'fault:earlier_enforcers_in_process': 1,
           'isolation_checks': res['n_obs'],
           'probe:multi_enforcer_runs': 1,
           'probe:shared_deprecated_rule_across_enforcers': 1}
    return {'violation': viol, 'digest': res['digest'], 'counters': cnt,
            'states': [], 'simtime': 0.0, 'events': res['n_obs'],
            'observations': []}


def pair_main(path):
    """Body of `run.py c12pair`: see execute_pair."""
    import json
    import os
    with open(path) as f:
        case = json.load(f)
    core.boot()
    inner = {k: v for k, v in case.items() if k != 'decoy'}

    def child(run_decoy):
        r, w = os.pipe()
        pid = os.fork()
        if pid == 0:
            try:
                os.close(r)
                if run_decoy:
                    execute(case['decoy'], backend='inner')
                res = execute(inner, backend='inner', record=True)
                with os.fdopen(w, 'w') as f:
                    json.dump({'obs': res['observations'],
                               'violation': res['violation'],
                               'digest': res['digest']}, f, default=repr)
            finally:
                os._exit(0)
        os.close(w)
        with os.fdopen(r) as f:
            data = f.read()
        os.waitpid(pid, 0)
        if not data:
            raise core.HarnessError('c12pair child died')
        return json.loads(data)
    a = child(False)
    b = child(True)
    diff = None
    if a['obs'] != b['obs']:
        for x, y in zip(a['obs'], b['obs']):
            if x != y:
                diff = {'step': x[0], 'enforcer': x[1],
                        'alone': [p for p, q in zip(x[3], y[3]) if p != q][:3],
                        'after_decoy': [q for p, q in zip(x[3], y[3])
                                        if p != q][:3],
                        'tables_differ': x[2] != y[2]}
                break
        else:
            diff = {'step': None, 'lengths': [len(a['obs']), len(b['obs'])]}
    print(json.dumps({'a_violation': a['violation'], 'diff': diff,
                      'n_obs': len(a['obs']), 'digest': a['digest']},
                     default=repr))
    return 0


def _threaded_phase(case, sims, E, fs, dg, cnt, judge):
    """All enforcers reload concurrently under the line-level scheduler."""
    from sim import tsched
    for op in case.get('final_edits', []):
        sims[op['e']].apply(op)
    step = len(case['ops'])
    results = [None] * len(E)

    def mk(i):
        def fn():
            E[i].load_rules(force_reload=True)
            results[i] = sims[i].table(E[i])
            return True
        return fn
    # tables are logged by the workers in schedule order: keep the digest
    # free of them and log the outcome afterwards
    saved = [s.digest for s in sims]
    for s in sims:
        s.digest = None
    fs.digest = None
    try:
        s = tsched.Sched([mk(i) for i in range(len(E))], case['plan'])
        s.run()
    finally:
        for sm, d in zip(sims, saved):
            sm.digest = d
        fs.digest = dg
    cnt.hit('threaded_phases')
    cnt.hit('context_switches', sum(1 for x in s.log if x[2] == 'plan'))
    dg.add('threads', [(x[0], x[1], x[2], x[3]) for x in s.log], results)
    if s.deadlock:
        judge(step, 'deadlock-between-enforcers')
        return
    for i in range(len(E)):
        if s.exc[i] is not None:
            judge(step, 'threaded-load-raised:' +
                  type(s.exc[i]).__name__, enforcer=i)
            return
        twin = sims[i].make_enforcer()
        tt = sims[i].table(twin)
        cnt.hit('isolation_checks')
        if results[i] != tt:
            judge(step, 'not-isolated-under-threads', enforcer=i)
            return


# ------------------------------------------------------ engine interface

PROPS = ('C12',)
TIERS = {'C12': {'quick': [('plain', 1800), ('threads', 400),
                           ('xproc', 64)],
                 'thorough': [('plain', 150000), ('threads', 40000),
                              ('xproc', 3000)]}}


def make_case(base, prop, i, mode):
    return gen_case(base, i, mode)


def run_one(base, i, prop=None, mode='plain'):
    case = gen_case(base, i, mode)
    r = execute(case)
    c = r['counters']
    return {'index': i, 'digest': r['digest'], 'violation': r['violation'],
            'counters': c, 'states': r['states'], 'simtime': r['simtime'],
            'events': r['events'],
            'nontrivial': c.get('idempotence_checks', 0) > 0 or
            c.get('isolation_checks', 0) > 0}


def warm_up_noop():
    pass


def case_size(case):
    return len(case['ops'])


def shrink(case, sig, budget=300):
    calls = [0]
    if case.get('decoy') is not None:
        budget = 40      # each execution is a fresh interpreter

    def fails(c):
        calls[0] += 1
        try:
            v = execute(c)['violation']
        except core.HarnessError:
            return False
        return v is not None and v['sig'] == sig

    case = copy.deepcopy(case)

    def with_ops(ops):
        c = dict(case)
        c['ops'] = ops
        return c
    case['ops'] = core.ddmin(case['ops'], lambda o: fails(with_ops(o)),
                             budget=budget)
    # fewer enforcers: drop trailing enforcers nobody uses any more
    used = {op['e'] for op in case['ops']} | \
        {op['e'] for op in case.get('final_edits', [])}
    n = max(used) + 1 if used else 1
    if n < len(case['worlds']) and case.get('mode') != 'threads':
        c2 = dict(case)
        c2['worlds'] = case['worlds'][:n]
        if fails(c2):
            case = c2
    for w in case['worlds']:
        for rel in sorted(w['files']):
            saved = w['files'].pop(rel)
            if not fails(case):
                w['files'][rel] = saved
    return case, calls[0]


def sample_repr(case):
    w0 = case['worlds'][0]
    return {
        'shared_defaults': [
            {'name': d['name'], 'check': rast.show(d['ast']),
             'deprecated': d['dep'] and {
                 'name': d['dep']['name'],
                 'check': rast.show(d['dep']['ast']),
                 'shared_object': d['dep']['group']}}
            for d in w0['defaults']],
        'enforcers': [{'conf': w['conf'],
                       'initial_files': {p: {n: rast.show(a) for n, a in
                                             f['rules'].items()}
                                         for p, f in
                                         sorted(w['files'].items())}}
                      for w in case['worlds']],
        'history': [{k: (v if k != 'rules' else
                         {n: rast.show(a) for n, a in v.items()})
                     for k, v in op.items() if k != 'style'}
                    for op in case['ops']],
        'thread_plan': case.get('plan'),
    }


META = {'C12': {
    'level': 'exploration',
    'technique': 'deterministic simulation: 1-3 enforcers as nodes sharing '
                 'one list of default objects, seeded interleaving of '
                 'load / forced load / enforce / edit on a simulated disk '
                 '(plus a line-level thread schedule in threads mode); '
                 'invariants: immutability snapshot, idempotence, solo twin',
    'rule': 'one case = seeded registry of shared RuleDefault / '
            'DocumentedRuleDefault / DeprecatedRule objects (some '
            'DeprecatedRule objects shared by several defaults), 1-3 '
            'enforcers each with its own options and files, and a history of '
            'load / forced load / enforce / edit / full check steps; threads '
            'mode ends with all enforcers reloading concurrently under a '
            'seeded line-level schedule. Distinct = distinct event-log '
            'digest; non-trivial = at least one idempotence or isolation '
            'comparison took place. plain histories may also hand ONE '
            'Rules object to several enforcers through set_rules(); after '
            'every operation on enforcer i the printed stores of all other '
            'enforcers must be unchanged. xproc mode: a fresh interpreter '
            'forks two children, one executes the case alone, the other '
            'first executes a decoy case with the same policy names; all '
            'observed tables and printed stores must be identical.',
    'states_measure': 'hash of the printed rule store of an enforcer after '
                      'a load',
}}
ASSUMPTIONS = [
    'the shared objects are inspected through their public attributes plus '
    'vars() (attribute set) and the identity/shape of their check trees',
    'printed rule stores are compared only between two loads of the same '
    'enforcer, never against a model',
    'SimFS models POSIX mtime semantics (see C10 fidelity cross-check)',
]
COMPONENTS = {
    'real': ['oslo_policy', 'oslo.config', 'PyYAML/json',
             'real threads in threads mode'],
    'stub': ['disk (SimFS)', 'operator', 'thread scheduling decisions'],
}
EXPECTED_PROBES = {'C12': ['multi_enforcer_runs',
                           'shared_deprecated_rule_across_enforcers',
                           'one_rules_object_given_to_enforcers',
                           'forced_load_after_same_mtime_edit']}


def extra_coverage(prop, counters):
    return {k: counters.get(k, 0) for k in (
        'idempotence_checks', 'isolation_checks', 'snapshots_compared',
        'cross_influence_checks',
        'forced_loads', 'enforces', 'threaded_phases', 'context_switches')}
