#!/venv/bin/python
"""Entry point; see sim/cli.py. Kept thin so that no simulator module is
ever loaded twice (once as __main__, once by name)."""
import os
import sys

_here = os.path.dirname(os.path.abspath(__file__))
# the script's own directory must not shadow stdlib module names
sys.path[:] = [p for p in sys.path if os.path.abspath(p or '.') != _here]
sys.path.insert(0, os.path.dirname(_here))

if __name__ == '__main__':
    if os.environ.get('PYTHONHASHSEED') is None:
        # str hashing plays no part in a run (PRNGs are seeded with
        # strings through SHA-512), but pin it anyway
        os.environ['PYTHONHASHSEED'] = '0'
        os.execv(sys.executable, [sys.executable] + sys.argv)
    from sim import cli
    sys.exit(cli.main(sys.argv[1:]))
