"""Worlds (disk layout + configuration + registered defaults), operator
histories, the reference model of the documented layering/deprecation rules,
and DiskSim, which executes a world on SimFS (or on a real scratch directory
for the fidelity cross-check).

A world and an op list are plain JSON-able data: a replay file is exactly
(world, ops) and executing it is a pure function of that data and the code.
"""
import copy
import itertools
import posixpath

from sim import rast
from sim import simfs

DTS = (0.002, 0.5, 1.0, 60.0, 2592000.0)
T0S = (1.5, 1000.0, 1.7e9)
# every top-level name not starting with a dot is a layer, whatever its
# suffix: editor / package-manager leftovers sort right after their base name
DIR_FILE_POOL = ('a.yaml', 'B.yaml', '10.yaml', '2.yaml', 'z.conf', 'README',
                 'b.json', 'a.yaml~', '10.yaml.orig', 'B.yaml.bak',
                 'z.conf.rpmsave')
DOT_FILE = '.h.yaml'
SUBDIR = 'sub.yaml'          # a sub-directory that looks like a file name
SUBDIR_FILE = 'sub.yaml/zz.yaml'
ROLE_POOL = ('x', 'y', 'z', 'w')
# first letters vary on purpose (r, u, l, e, ':' and others): prefix/character-
# set slips on 'rule:<name>' depend on how a name starts
REG_NAMES = ('svc:get', 'list_ports', 'update:port', 'n3', 'extend_vol',
             'remove:x')
OLD_NAMES = ('svc:old', 'old2')
FILE_ONLY = ('extra', 'default')
NEVER = 'nowhere:defined'
MAIN_CANDIDATES = ('policy.yaml', 'policy.json', 'custom.yaml', 'ctor.yaml')


# ------------------------------------------------------------- generation

def _ref_pool(world, name):
    """Names a definition of `name` may reference without creating cycles:
    registered names strictly before it in registration order; an old name
    may reference what precedes its first successor; file-only names may
    reference every registered name."""
    regs = [d['name'] for d in world['defaults']]
    succ = [i for i, d in enumerate(world['defaults'])
            if d['dep'] and d['dep']['name'] == name and d['name'] != name]
    limit = len(regs)
    if name in regs:
        limit = regs.index(name)
    if succ:
        limit = min(limit, min(succ))
    # a predecessor that is also registered is never referenced: an alias
    # override 'old: rule:<new>' plus a reference to old would be a cycle
    olds = {d['dep']['name'] for d in world['defaults'] if d['dep']}
    return [n for n in regs[:limit] if n not in olds or n == name]


def gen_rule_for(rng, world, name, depth=None):
    roles = world['roles']
    succ = [d['name'] for d in world['defaults']
            if d['dep'] and d['dep']['name'] == name and d['name'] != name]
    if succ and rng.random() < 0.25:
        # alias override: always to the first successor (keeps references
        # acyclic when several successors share the predecessor)
        if rng.random() < 0.15:
            return ['paren', ['rule', succ[0]]]   # "(rule:new)": same alias
        return ['rule', succ[0]]
    if succ and rng.random() < 0.1:
        # an old-name override that happens to restate a successor's NEW
        # default (possibly in another spelling) is an override like any
        # other: it governs
        pick = rng.choice(succ)
        d = [d for d in world['defaults'] if d['name'] == pick][0]
        a = copy.deepcopy(d['ast'])
        if not (rast.refs(a) - set(_ref_pool(world, name))):
            return ['paren', a] if rng.random() < 0.4 and a[0] != 'empty' else a
    if succ and rng.random() < 0.12:
        d = [d for d in world['defaults'] if d['name'] == succ[0]][0]
        if rng.random() < 0.5:
            # textually equal to the deprecated default: unconstrained
            return copy.deepcopy(d['dep']['ast'])
        # the same check in another spelling (redundant parentheses): NOT
        # textually equal, so it governs like any other override
        if d['dep']['ast'][0] == 'empty':
            return ['true']          # '@' is another spelling of ''
        return ['paren', copy.deepcopy(d['dep']['ast'])]
    regd = [d for d in world['defaults'] if d['name'] == name]
    if regd and rng.random() < 0.1:
        # a file rule that restates the registered default (a "redundant"
        # rule, possibly in another spelling): still a definition of its
        # layer, and still an operator override for deprecation handling
        a = copy.deepcopy(regd[0]['ast'])
        return ['paren', a] if rng.random() < 0.3 and a[0] != 'empty' else a
    if rng.random() < 0.04:
        return ['empty']             # "name": ""  - allow all
    if depth is None:
        depth = rng.choice((0, 0, 1, 1, 2, 3))
    return rast.gen(rng, roles, _ref_pool(world, name), depth)


def gen_mapping(rng, world, kmax=3, bias=None):
    universe = world['universe']
    k = rng.randint(0, min(kmax, len(universe)))
    if bias and rng.random() < 0.7:
        names = []
        for _ in range(max(1, k)):
            n = rng.choice(bias if rng.random() < 0.7 else universe)
            if n not in names:
                names.append(n)
    else:
        names = rng.sample(universe, k)
    return {n: gen_rule_for(rng, world, n) for n in names}


def gen_world(rng, flavour):
    """flavour: 'c09' (layering, file selection, no deprecations),
    'c10' (reload histories), 'c11' (deprecation table), 'c12', 'c20'."""
    w = {'flavour': flavour, 't0': rng.choice(T0S),
         'fs_seed': '%016x' % rng.getrandbits(64)}
    w['roles'] = list(ROLE_POOL[:rng.choice((3, 3, 4))])
    if rng.random() < 0.2:
        w['roles'] = w['roles'][:3] + ['flag:f1']
    nreg = rng.randint(1, 4) if flavour != 'c09' else rng.randint(0, 4)
    dep_p = {'c09': 0.0, 'c10': 0.4, 'c11': 0.85, 'c12': 0.6,
             'c20': 0.4}[flavour]
    w['defaults'] = []
    groups = {}
    ngroups = 0
    for i in range(nreg):
        name = REG_NAMES[i]
        d = {'name': name, 'dep': None, 'scope': None,
             'documented': rng.random() < 0.3, 'removal': False}
        w['defaults'].append(d)
        d['ast'] = rast.gen(rng, w['roles'], _ref_pool(w, name),
                            rng.choice((0, 0, 1, 2)))
        if rng.random() < 0.04:
            d['ast'] = ['empty']
        if rng.random() < dep_p:
            if rng.random() < 0.7:
                old = OLD_NAMES[0] if rng.random() < 0.7 else OLD_NAMES[1]
            else:
                old = name
            if old in groups:
                # several successors sharing ONE DeprecatedRule object
                g = groups[old]
                d['dep'] = {'name': old, 'ast': copy.deepcopy(g['ast']),
                            'group': g['group']}
            else:
                if rng.random() < 0.25:
                    a = copy.deepcopy(d['ast'])     # same check string
                else:
                    # created at the FIRST successor, so its references
                    # precede every successor
                    a = rast.gen(rng, w['roles'], _ref_pool(w, name),
                                 rng.choice((0, 0, 1, 2)))
                    if rng.random() < 0.08:
                        a = ['empty']    # the old default allowed everybody
                d['dep'] = {'name': old, 'ast': a, 'group': ngroups}
                ngroups += 1
                if old != name:
                    groups[old] = d['dep']
        if rng.random() < (0.25 if not d['dep'] else 0.15):
            d['scope'] = rng.choice((['system'], ['project'],
                                     ['system', 'project'], ['domain']))
        if rng.random() < (0.1 if not d['dep'] else 0.15):
            # scheduled for removal - also legal together with a
            # deprecated predecessor (renamed in N, going away in P)
            d['removal'] = True
    olds = []
    for d in w['defaults']:
        if d['dep'] and d['dep']['name'] != d['name'] and \
                d['dep']['name'] not in olds:
            olds.append(d['dep']['name'])
    w['old_names'] = olds
    if olds and flavour in ('c10', 'c11', 'c12') and rng.random() < 0.15:
        # the deprecated predecessor is still a registered policy of its
        # own (registered before or after its successors); its registered
        # default is not an operator override and must not influence them
        old = rng.choice(olds)
        first = min(i for i, d in enumerate(w['defaults'])
                    if d['dep'] and d['dep']['name'] == old)
        pos = rng.choice((first, len(w['defaults'])))
        regs = [d['name'] for d in w['defaults']]
        w['defaults'].insert(pos, {
            'name': old, 'dep': None, 'scope': None, 'documented': False,
            'removal': False,
            'ast': rast.gen(rng, w['roles'],
                            [n for n in regs[:min(pos, first)]
                             if n not in olds],
                            rng.choice((0, 0, 1)))})
        w['old_also_registered'] = old
    fo = [n for n in FILE_ONLY if rng.random() < 0.6]
    w['file_only'] = fo
    regnames = [d['name'] for d in w['defaults']]
    w['universe'] = regnames + [o for o in olds if o not in regnames] + fo
    if not w['universe']:
        w['file_only'] = ['extra']
        w['universe'] = ['extra']
    w['probe_names'] = w['universe'] + [NEVER] + \
        (['default'] if 'default' not in w['universe'] else [])
    # decisions asked with a Check object instead of a name (public API:
    # enforce(rule=BaseCheck)); the trees reach named rules through
    # not / and / or / a custom check
    w['trees'] = []
    if rng.random() < 0.35:
        for _ in range(rng.choice((1, 2))):
            x = ['rule', rng.choice(w['universe'])]
            w['trees'].append(rng.choice((
                ['not', x], ['not', ['not', x]],
                ['and', [x, ['role', rng.choice(w['roles'][:3])]]],
                ['or', [['false'], ['not', x]]], x)))
        w['probe_names'] = w['probe_names'] + \
            ['@tree:%d' % i for i in range(len(w['trees']))]
    # late registration: some defaults are registered on the long-lived
    # enforcer only after it has already loaded once
    if flavour in ('c10', 'c11') and rng.random() < 0.25:
        for d in w['defaults']:
            if rng.random() < 0.5:
                d['late'] = True

    return gen_layout(rng, w, flavour)


def gen_layout(rng, w, flavour):
    """Configuration and initial disk for a world whose registry (roles,
    defaults, names) is already fixed."""
    w['fs_seed'] = '%016x' % rng.getrandbits(64)
    # ---- configuration
    c = {}
    ndirs = rng.choice((0, 1, 1, 2, 2, 3))
    pool = ['policy.d', 'extra.d', '@ROOT/abs.d', 'gone.d', 'late.d',
            'site[a].d', '@ROOT/opt/x?y [1]/pol.d']
    rng.shuffle(pool)
    c['policy_dirs'] = pool[:ndirs]
    if ndirs >= 2 and rng.random() < 0.15:
        # the same directory configured twice (it is applied twice, so its
        # last position is what counts), possibly in another spelling
        d0 = c['policy_dirs'][0]
        if rng.random() < 0.4 and not d0.startswith('@ROOT/'):
            d0 = '@ROOT/etc/' + d0
        c['policy_dirs'].append(d0)
    c['dirs_via'] = rng.choice(('override', 'override', 'file'))
    if ndirs == 1 and c['policy_dirs'] == ['policy.d'] and \
            rng.random() < 0.5:
        c['dirs_via'] = 'default'       # the option's own default
    c['enforce_new_defaults'] = rng.random() < 0.5
    c['enforce_scope'] = rng.random() < 0.8
    # swarm knobs: library DEBUG logging on (other code paths in enforce
    # and load), credentials handed over as an oslo.context RequestContext,
    # registered names decided through authorize()
    c['debug_logging'] = rng.random() < 0.25
    c['creds_as_context'] = rng.random() < 0.25
    c['use_authorize'] = rng.random() < 0.25
    # decisions asked with do_raise=True: a denial (or a scope mismatch)
    # leaves enforce() by exception
    c['do_raise'] = rng.random() < 0.25
    c['via'] = rng.choice(('config_dir', 'config_file'))
    # the service builds its Enforcer first and applies its option
    # overrides afterwards (before anything is loaded): the library reads
    # the options live, so the order must not matter
    c['options_after_ctor'] = rng.random() < 0.2
    if flavour == 'c09':
        pf = {'how': rng.choice(('untouched', 'set_defaults', 'config_file',
                                 'set_override')),
              'value': rng.choice(('policy.yaml', 'policy.yaml',
                                   'custom.yaml')),
              'fallback': rng.random() < 0.8,
              'ctor': rng.choice(('ctor.yaml', 'ctor.yaml', 'policy.yaml',
                                  'custom.yaml'))
              if rng.random() < 0.2 else None}
        if pf['how'] == 'untouched':
            pf['value'] = 'policy.yaml'
    else:
        pf = rng.choice((
            {'how': 'untouched', 'value': 'policy.yaml', 'fallback': True,
             'ctor': None},
            {'how': 'untouched', 'value': 'policy.yaml', 'fallback': True,
             'ctor': None},
            {'how': 'set_override', 'value': 'custom.yaml',
             'fallback': True, 'ctor': None},
            {'how': 'untouched', 'value': 'policy.yaml', 'fallback': False,
             'ctor': 'ctor.yaml'}))
    pf = dict(pf)
    if rng.random() < 0.2 and (pf['ctor'] or pf['how'] in (
            'set_override', 'config_file', 'set_defaults')):
        # the policy file named by its absolute path
        pf['absolute'] = True
    c['pf'] = pf
    w['conf'] = c

    # ---- initial disk
    w['mkdirs'] = ['etc']
    w['files'] = {}
    w['dirlinks'] = {}
    for d in c['policy_dirs']:
        if d in ('gone.d', 'late.d'):
            continue      # configured but missing (late.d: created later)
        rel = dir_rel(d)
        w['mkdirs'].append(rel)
        if rng.random() < 0.3:
            w['mkdirs'].append(rel + '/' + SUBDIR)
            w['files'][rel + '/' + SUBDIR_FILE] = {
                'rules': decoy_mapping(w), 'style': 'yaml_dq'}
        if rng.random() < 0.3:
            w['files'][rel + '/' + DOT_FILE] = {
                'rules': decoy_mapping(w), 'style': 'json'}
        for fn in rng.sample(DIR_FILE_POOL, rng.choice((0, 1, 2, 2, 3))):
            w['files'][rel + '/' + fn] = {
                'rules': gen_mapping(rng, w),
                'style': style_for(rng, fn)}
            if rng.random() < 0.15:
                # a symbolic link to a regular file kept in a hidden
                # sub-directory (the Kubernetes ConfigMap layout)
                w['files'][rel + '/' + fn]['symlink'] = True
        if (rel + '/' + SUBDIR) in w['mkdirs'] and rng.random() < 0.4:
            # a symlink to a DIRECTORY must be ignored like a directory
            w.setdefault('dirlinks', {})[rel + '/linkdir.yaml'] = \
                rel + '/' + SUBDIR
    if flavour == 'c09':
        present = [m for m in MAIN_CANDIDATES if rng.random() < 0.5]
    else:
        present = [main_name(w)] if rng.random() < 0.65 else []
    for m in present:
        mp = gen_mapping(rng, w, kmax=4)
        symlinked = rng.random() < 0.1
        if flavour == 'c09':
            # every candidate carries a rule that names it, so the decision
            # reveals which file was read
            mp['which:' + m] = ['true']
        w['files']['etc/' + m] = {'rules': mp, 'style': style_for(rng, m)}
        if symlinked:
            w['files']['etc/' + m]['symlink'] = True
    if flavour == 'c09':
        w['probe_names'] = w['probe_names'] + \
            ['which:' + m for m in MAIN_CANDIDATES]
    return w


def decoy_mapping(w):
    """Rules that would flip every decision if a dot-file or a file in a
    sub-directory were (wrongly) loaded."""
    return {n: ['not', ['true']] if i % 2 else ['true']
            for i, n in enumerate(w['universe'])}


def style_for(rng, fn):
    if fn.endswith('.json'):
        return rng.choice(('json', 'json_indent'))
    return rng.choice(rast.STYLES)


def dir_rel(d):
    """configured directory name -> path relative to the FS root"""
    if d.startswith('@ROOT/'):
        return d[len('@ROOT/'):]
    return 'etc/' + d


def main_name(w):
    """The main policy file the documented selection rule picks; for
    non-c09 flavours it does not depend on what exists."""
    pf = w['conf']['pf']
    return pf['ctor'] or pf['value']


def editable_paths(w):
    """Paths the operator may edit in a history."""
    paths = ['etc/' + main_name(w)]
    for d in w['conf']['policy_dirs']:
        rel = dir_rel(d)
        if d == 'gone.d':
            continue
        for fn in DIR_FILE_POOL[:4]:
            paths.append(rel + '/' + fn)
        paths.append(rel + '/' + DOT_FILE)
    return paths


OP_MIXES = {
    'balanced': {'write': 4, 'replace': 2, 'empty': 1, 'touch': 2,
                 'unlink': 2, 'load': 1, 'force': 1, 'probe': 3,
                 'check': 3},
    'delete_heavy': {'write': 3, 'replace': 1, 'empty': 1, 'touch': 1,
                     'unlink': 5, 'load': 0, 'force': 0, 'probe': 2,
                     'check': 3},
    'touch_heavy': {'write': 2, 'replace': 1, 'empty': 1, 'touch': 6,
                    'unlink': 1, 'load': 1, 'force': 0, 'probe': 2,
                    'check': 3},
    'quiet': {'write': 3, 'replace': 2, 'empty': 1, 'touch': 1,
              'unlink': 2, 'load': 0, 'force': 0, 'probe': 0, 'check': 1},
    'load_heavy': {'write': 2, 'replace': 1, 'empty': 0, 'touch': 1,
                   'unlink': 1, 'load': 4, 'force': 3, 'probe': 2,
                   'check': 2},
}


def gen_len(rng):
    r = rng.random()
    if r < 0.55:
        return rng.randint(1, 6)
    if r < 0.9:
        return rng.randint(7, 15)
    return rng.randint(16, 40)


def gen_ops(rng, w, n=None, mix=None, bias=None, main_bias=0.35,
            path_bias=None):
    """An operator/enforcement history. Each edit carries its own clock
    delta and concrete content; 'check' compares full decision tables,
    'probe' one decision."""
    mix = mix or rng.choice(sorted(OP_MIXES))
    weights = OP_MIXES[mix]
    kinds = sorted(weights)
    cum = [weights[k] for k in kinds]
    paths = editable_paths(w)
    n = n if n is not None else gen_len(rng)
    ops = []
    # contents a path has held before (initial content included): some
    # rewrites restore one of them byte for byte, e.g. a file deleted and
    # re-created by a config-management run
    held = {p: [(f['rules'], f['style'])] for p, f in w['files'].items()}
    links = sorted(p for p, f in w['files'].items()
                   if f.get('symlink') and p in paths)
    for _ in range(n):
        k = rng.choices(kinds, cum)[0]
        if k in ('load', 'force', 'check'):
            ops.append({'op': k})
            continue
        if k == 'probe':
            ops.append({'op': 'probe', 'i': rng.randrange(1 << 16)})
            continue
        p = paths[0] if rng.random() < main_bias else rng.choice(paths)
        if path_bias and rng.random() < path_bias[1]:
            p = path_bias[0]
        elif links and rng.random() < 0.2:
            p = rng.choice(links)      # edit through a symbolic link
        op = {'op': k, 'path': p, 'dt': rng.choice(DTS)}
        if k in ('write', 'replace'):
            if held.get(p) and rng.random() < 0.25:
                prev = rng.choice(held[p])
                op['rules'] = copy.deepcopy(prev[0])
                op['style'] = prev[1]
                op['restores'] = True
            else:
                op['rules'] = gen_mapping(rng, w, bias=bias)
                op['style'] = style_for(rng, p)
            held.setdefault(p, []).append((op['rules'], op['style']))
        elif k == 'empty':
            op['rules'] = {}
            op['style'] = style_for(rng, p)
        ops.append(op)
    ops.append({'op': 'check'})
    return ops, mix


def gen_edit(rng, w, bias=None):
    """exactly one operator edit"""
    while True:
        ops, _ = gen_ops(rng, w, n=1, mix='quiet', bias=bias)
        if 'path' in ops[0]:
            return ops[0]


# ------------------------------------------------------------------ model

class Model:
    """Reference model of the documented behaviour; no library code."""

    def __init__(self, world):
        self.w = world
        self.reg = {d['name']: d for d in world['defaults']}

    def selected_main(self, exists):
        """Which main file the enforcer reads; exists(name) -> bool for
        files in the config dir at construction time. Returns (name,
        constrained)."""
        pf = self.w['conf']['pf']
        if pf['ctor']:
            return pf['ctor'], True
        v = pf['value']
        if v == 'policy.yaml' and pf['fallback']:
            if exists('policy.yaml'):
                return v, True
            if pf['how'] in ('untouched', 'set_defaults') and \
                    exists('policy.json'):
                return 'policy.json', True
            return v, True
        if v != 'policy.yaml' and pf['how'] == 'set_defaults' and \
                pf['fallback'] and not exists(v) and exists('policy.json') \
                and not exists('policy.yaml'):
            # the service changed the library default to another name; the
            # property's wording does not settle whether the legacy fallback
            # applies here: unconstrained
            return v, False
        return v, True

    def layers(self, content, dirs, main):
        """content: {relpath: mapping}; dirs: set of existing relpaths."""
        out = []
        mp = content.get('etc/' + main)
        if mp is not None:
            out.append(mp)
        for d in self.w['conf']['policy_dirs']:
            rel = dir_rel(d)
            if rel not in dirs:
                continue
            names = sorted(posixpath.basename(p) for p in content
                           if posixpath.dirname(p) == rel)
            for n in names:
                if n.startswith('.'):
                    continue
                out.append(content[rel + '/' + n])
        return out

    def effective(self, content, dirs, main):
        file_def = {}
        for mp in self.layers(content, dirs, main):
            file_def.update(mp)
        eff = dict(file_def)
        unc = set()
        new_defaults = self.w['conf']['enforce_new_defaults']
        for name, d in self.reg.items():
            if name in file_def:
                continue
            dep = d['dep']
            if not dep:
                eff[name] = d['ast']
                continue
            if dep['name'] != name and dep['name'] in file_def:
                ov = file_def[dep['name']]
                if rast.strip_parens(ov) != ['rule', name]:
                    if ov == dep['ast']:
                        unc.add(name)
                    eff[name] = ov
                    continue
            if not new_defaults and \
                    rast.show(dep['ast']) != rast.show(d['ast']):
                eff[name] = ['or', [d['ast'], dep['ast']]]
            else:
                eff[name] = d['ast']
        return eff, unc

    def decide(self, eff, unc, name, roles, system):
        """True/False, or None when unconstrained."""
        def lookup(n):
            if n in unc:
                raise rast.Unconstrained()
            if n in eff:
                return eff[n]
            # an undefined reference resolves like an undefined name
            return eff.get('default')
        try:
            if name.startswith('@tree:'):
                tree = self.w['trees'][int(name[6:])]
                if not eff:
                    return bool(rast.ev(tree, set(roles),
                                        lambda n: None))
                return bool(rast.ev(tree, set(roles), lookup))
            if name in unc:
                return None
            if name in eff:
                a = eff[name]
            elif 'default' in eff:
                if 'default' in unc:
                    return None
                a = eff['default']
            else:
                return False
            d = self.reg.get(name)
            if d and d['scope'] and self.w['conf']['enforce_scope'] and \
                    name in eff:
                tok = 'system' if system is True else \
                    'domain' if system == 'domain' else 'project'
                if tok not in d['scope']:
                    return False
            return bool(rast.ev(a, set(roles), lookup))
        except rast.Unconstrained:
            return None


def probes_for(w):
    roles = w['roles']
    subsets = []
    for k in range(len(roles) + 1):
        subsets.extend(itertools.combinations(roles, k))
    reg = {d['name']: d for d in w['defaults']}
    out = []
    for n in w['probe_names']:
        scoped = n in reg and reg[n]['scope']
        for s in subsets:
            out.append((n, s, False))
            if scoped:
                out.append((n, s, True))          # system-scoped token
                out.append((n, s, 'domain'))      # domain-scoped token
    return out


# ---------------------------------------------------------------- DiskSim

class DiskSim:
    """Executes a world: disk (SimFS or real), conf, enforcers, operator."""

    def __init__(self, world, backend='sim', digest=None, fs=None,
                 sub=None):
        import random
        self.w = world
        self.digest = digest
        self.own_fs = fs is None
        if fs is not None:
            self.fs = fs
        elif backend == 'sim':
            self.fs = simfs.SimFS(random.Random('fs:' + world['fs_seed']),
                                  t0=world['t0'], digest=digest)
        else:
            self.fs = simfs.RealFS(t0=world['t0'])
        simfs.use(self.fs)
        self.root = self.fs.root + ('/' + sub if sub else '')
        set_debug_logging(bool(world['conf'].get('debug_logging')))
        self.content = {}
        self.dirs = set()
        self.model = Model(world)
        self.probes = probes_for(world)
        self.counters = {}
        for k in ('debug_logging', 'creds_as_context', 'use_authorize',
                  'do_raise'):
            if world['conf'].get(k):
                self.counters['knob:' + k] = 1
        if world['conf']['pf'].get('absolute'):
            self.counters['knob:policy_file_absolute_path'] = 1
        if 'flag:f1' in world['roles']:
            self.counters['knob:custom_check_class'] = 1
        for rel in world['mkdirs']:
            self.fs.mkdir(self.abs(rel))
            self.dirs.add(rel)
        for rel in sorted(world['files']):
            f = world['files'][rel]
            text = rast.render(f['rules'], f['style'])
            if f.get('symlink'):
                target = posixpath.dirname(rel) + '/.store/' + \
                    posixpath.basename(rel)
                self.fs.write(self.abs(target), text)
                self.fs.symlink(self.abs(rel), self.abs(target))
                self.hit('fault:file_is_symlink')
            else:
                self.fs.write(self.abs(rel), text)
            self.content[rel] = f['rules']
        for rel, target in sorted(world.get('dirlinks', {}).items()):
            self.fs.symlink(self.abs(rel), self.abs(target))
            self.hit('fault:symlink_to_directory_decoy')
        pf = world['conf']['pf']
        self._conf_text = None
        lines = []
        if pf['how'] == 'config_file':
            lines.append('policy_file = %s' % self.pf_value())
        if world['conf']['dirs_via'] == 'file':
            for d in world['conf']['policy_dirs']:
                lines.append('policy_dirs = %s' % self.cfg_dir(d))
        if lines or world['conf']['via'] == 'config_file':
            self._conf_text = '[oslo_policy]\n' + '\n'.join(lines) + '\n'
            self.fs.write(self.abs('etc/svc.conf'), self._conf_text)

    def hit(self, k, n=1):
        self.counters[k] = self.counters.get(k, 0) + n

    def pf_value(self, name=None):
        """the policy_file value as configured: relative to the config
        directory, or the same file by its absolute path"""
        pf = self.w['conf']['pf']
        v = name or pf['value']
        if pf.get('absolute') and v != 'policy.yaml':
            return self.abs('etc/' + v)
        return v

    def abs(self, rel):
        return self.root + '/' + rel

    def cfg_dir(self, d):
        return self.root + '/' + d[len('@ROOT/'):] \
            if d.startswith('@ROOT/') else d

    def close(self):
        set_debug_logging(False)
        if self.own_fs:
            self.fs.close()
            simfs.use(None)

    # ---- library objects, public API only
    def build_conf(self):
        from oslo_config import cfg
        from oslo_policy import opts
        c = self.w['conf']
        pf = c['pf']
        if PRISTINE_OPTIONS() is not None:
            # opts.set_defaults() mutates this module-global list: every
            # conf gets its own pristine copy (hermeticity of the harness)
            opts._options = copy.deepcopy(PRISTINE_OPTIONS())
        conf = cfg.ConfigOpts()
        etc = self.abs('etc')
        if c['via'] == 'config_file':
            args = ['--config-file', etc + '/svc.conf']
        else:
            args = ['--config-dir', etc]
        conf(args=args, project='verifsim', default_config_files=[],
             default_config_dirs=[])
        if pf['how'] == 'set_defaults':
            opts.set_defaults(conf, policy_file=self.pf_value())
        else:
            opts.set_defaults(conf)
        if pf['how'] == 'set_override':
            conf.set_override('policy_file', self.pf_value(),
                              group='oslo_policy')
        if c['dirs_via'] == 'override':
            conf.set_override('policy_dirs',
                              [self.cfg_dir(d) for d in c['policy_dirs']],
                              group='oslo_policy')
        if not c.get('options_after_ctor'):
            self.apply_flag_options(conf)
        return conf

    def apply_flag_options(self, conf):
        c = self.w['conf']
        if not c['enforce_new_defaults']:
            conf.set_override('enforce_new_defaults', False,
                              group='oslo_policy')
        if not c['enforce_scope']:
            conf.set_override('enforce_scope', False, group='oslo_policy')

    def build_defaults(self):
        return build_defaults(self.w['defaults'])

    def make_enforcer(self, defaults=None, include_late=True, **kw):
        """include_late=False registers only the defaults not marked
        'late'; late_defaults() gives the rest for a later
        register_defaults() on the same enforcer."""
        from oslo_policy import policy
        pf = self.w['conf']['pf']
        conf = self.build_conf()
        if pf['ctor']:
            kw.setdefault('policy_file', self.pf_value(pf['ctor']))
        if not pf['fallback']:
            kw.setdefault('fallback_to_json_file', False)
        e = policy.Enforcer(conf, **kw)
        if self.w['conf'].get('options_after_ctor'):
            self.apply_flag_options(conf)
            self.hit('knob:options_set_after_construction')
        if defaults is None:
            objs = self.build_defaults()
            if not include_late:
                late = {d['name'] for d in self.w['defaults']
                        if d.get('late')}
                self._late_objs = [o for o in objs if o.name in late]
                objs = [o for o in objs if o.name not in late]
            defaults = objs
        e.register_defaults(defaults)
        return e

    def late_defaults(self):
        return getattr(self, '_late_objs', [])

    # ---- operator
    def apply(self, op):
        """Apply one operator edit; returns False when it does not apply to
        the current disk (kept as a no-op so shrinking never invalidates a
        history)."""
        k = op['op']
        rel = op['path']
        p = self.abs(rel)
        fs = self.fs
        exists = rel in self.content
        if k in ('touch', 'unlink', 'write_keep') and not exists:
            self.hit('op_skipped')
            return False
        if k == 'write_keep':
            # the content changes, the modification time does not
            m = fs.get_mtime(p)
            fs.write(p, rast.render(op['rules'], op['style']))
            fs.set_mtime(p, m)
            self.content[rel] = op['rules']
            self.hit('fault:content_changed_mtime_kept')
            if self.digest is not None:
                self.digest.add('op', k, rel)
            return True
        fs.advance(op['dt'])
        if k in ('write', 'empty', 'replace'):
            parent = posixpath.dirname(rel)
            if parent not in self.dirs:
                self.dirs.add(parent)
                self.hit('dir_created_late')
            text = rast.render(op['rules'], op['style'])
            if k == 'replace':
                fs.replace(p, text)
            else:
                fs.write(p, text)
            self.content[rel] = op['rules']
            self.hit('op_create' if not exists else 'op_' + k)
        elif k == 'touch':
            fs.touch(p)
            self.hit('op_touch')
        elif k == 'unlink':
            fs.unlink(p)
            del self.content[rel]
            self.hit('op_unlink')
        else:
            raise ValueError(k)
        if self.digest is not None:
            self.digest.add('op', k, rel, op['dt'])
        return True

    # ---- observation
    def decide(self, e, probe):
        name, roles, system = probe
        c = self.w['conf']
        if c.get('creds_as_context'):
            from oslo_context import context
            creds = context.RequestContext(
                roles=list(roles),
                system_scope='all' if system is True else None,
                domain_id='d-1' if system == 'domain' else None,
                project_id=None if system else 'p-1', overwrite=False)
        else:
            creds = {'roles': list(roles)}
            if system is True:
                creds['system'] = 'all'
            elif system == 'domain':
                creds['domain_id'] = 'd-1'
        fn = e.enforce
        if c.get('use_authorize') and name in self.model.reg:
            fn = e.authorize
        if name.startswith('@tree:'):
            name = build_check(self.w['trees'][int(name[6:])])
        try:
            if c.get('do_raise'):
                from oslo_policy import policy
                try:
                    r = bool(fn(name, {}, creds, do_raise=True))
                except (policy.PolicyNotAuthorized, policy.InvalidScope):
                    r = False       # a denial delivered as an exception
            else:
                r = bool(fn(name, {}, creds))
        except Exception as ex:       # noqa - the outcome is what we record
            r = 'EXC:' + type(ex).__name__
        return r

    def table(self, e):
        t = [self.decide(e, p) for p in self.probes]
        if self.digest is not None:
            self.digest.add('table', t)
        return t

    def model_table(self, main=None):
        if main is None:
            main = self.model_main()[0]
        eff, unc = self.model.effective(self.content, self.dirs, main)
        return [self.model.decide(eff, unc, n, r, s)
                for (n, r, s) in self.probes]

    def model_main(self):
        return self.model.selected_main(
            lambda n: ('etc/' + n) in self.content)


def set_debug_logging(on):
    """Library DEBUG logging on/off for the current run; records go to a
    NullHandler (nothing is printed, no handler lock is ever taken)."""
    import logging
    lg = logging.getLogger('oslo_policy')
    if on:
        logging.disable(logging.NOTSET)
        lg.setLevel(logging.DEBUG)
        lg.propagate = False
        if not any(isinstance(h, logging.NullHandler) for h in lg.handlers):
            lg.addHandler(logging.NullHandler())
    else:
        logging.disable(logging.CRITICAL)
        lg.setLevel(logging.NOTSET)
        lg.propagate = True


_PRISTINE = []


def PRISTINE_OPTIONS():
    if not _PRISTINE:
        from oslo_policy import opts
        o = getattr(opts, '_options', None)
        _PRISTINE.append(copy.deepcopy(o) if isinstance(o, list) else None)
    return _PRISTINE[0]


def build_defaults(spec):
    """Fresh RuleDefault/DocumentedRuleDefault/DeprecatedRule objects from a
    spec; defaults that share a 'group' share ONE DeprecatedRule object."""
    from oslo_policy import policy
    deps = {}
    out = []
    for d in spec:
        kw = {}
        if d['dep']:
            g = d['dep']['group']
            if g not in deps:
                deps[g] = policy.DeprecatedRule(
                    d['dep']['name'], rast.show(d['dep']['ast']),
                    deprecated_reason='superseded', deprecated_since='N')
            kw['deprecated_rule'] = deps[g]
        if d['scope']:
            kw['scope_types'] = list(d['scope'])
        if d.get('removal'):
            kw.update(deprecated_for_removal=True,
                      deprecated_reason='going away', deprecated_since='N')
        if d['documented']:
            out.append(policy.DocumentedRuleDefault(
                d['name'], rast.show(d['ast']), 'describes ' + d['name'],
                [{'path': '/v1/x', 'method': 'GET'}], **kw))
        else:
            out.append(policy.RuleDefault(d['name'], rast.show(d['ast']),
                                          **kw))
    return out


def build_check(a):
    """A Check tree for an AST, obtained through the public API
    (Rules.from_dict parses check strings)."""
    from oslo_policy import policy
    return policy.Rules.from_dict({'t': rast.show(a)})['t']


def diff_tables(a, b):
    """indices where both sides are constrained and differ"""
    return [i for i, (x, y) in enumerate(zip(a, b))
            if x is not None and y is not None and x != y]
