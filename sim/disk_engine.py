"""The disk engines: C09 `layering`, C10 `reload`, C11 `deprecation`.

One executor runs a case (world + operator/enforcement history) on SimFS
with a long-lived enforcer L; observations are judged per property:

  C09  a fresh enforcer F equals the reference model (layering, selection)
  C10  L equals a fresh enforcer F built at that instant on the same disk
  C11  L and F equal the model's deprecation table on deprecated names
"""
import copy
import hashlib
import posixpath

from sim import core
from sim import rast
from sim import world as W

EDITS = ('write', 'replace', 'empty', 'touch', 'unlink')


def warm_up():
    """Fixed warm-up so lazily initialised process globals (stevedore
    extension scan, regex caches, oslo.config internals) never make a run
    depend on what ran before it in the same process."""
    core.boot()
    import random
    rng = random.Random('warm-up')
    for fl in ('c09', 'c10', 'c11'):
        w = W.gen_world(rng, fl)
        ops, _ = W.gen_ops(rng, w, n=4)
        execute({'prop': {'c09': 'C09', 'c10': 'C10', 'c11': 'C11'}[fl],
                 'world': w, 'ops': ops})


# ----------------------------------------------------------- generation

def gen_case(base, prop, i, mode='plain'):
    rng = core.rng_for(base, prop, i, mode)
    if prop == 'C09':
        w = W.gen_world(rng, 'c09')
        # layering is a statement about a freshly built enforcer; a short
        # edit prefix just makes the disk's timestamps and creation order
        # independent of file-name order
        r = rng.random()
        n = 0 if r < 0.5 else rng.randint(1, 4)
        ops, mix = W.gen_ops(rng, w, n=n, mix='quiet')
        return {'prop': prop, 'world': w, 'ops': ops, 'mix': mix,
                'mode': mode}
    if prop == 'C10' and mode == 'short':
        return short_case(base, i)
    if prop == 'C10':
        w = W.gen_world(rng, 'c10')
        sparse = mode == 'plain' and rng.random() < 0.15 and sparsify(rng, w)
        if sparse:
            ops, mix = W.gen_ops(rng, w, n=rng.randint(2, 7),
                                 mix=rng.choice(('balanced', 'delete_heavy')),
                                 main_bias=0.05, path_bias=(sparse, 0.6))
            ops.insert(0, {'op': 'check'})
        else:
            ops, mix = W.gen_ops(rng, w, main_bias=rng.choice(
                (0.35, 0.35, 0.35, 0.1, 0.0)))
        if mode == 'race':
            ops = add_races(rng, w, ops)
        else:
            if not sparse and rng.random() < 0.08:
                ops = directory_only_prefix(rng, w) + ops
            elif not sparse and rng.random() < 0.08:
                ops = vanished_main_prefix(rng, w) + ops
            ops = add_late_registration(rng, w, ops)
        return {'prop': prop, 'world': w, 'ops': ops, 'mix': mix,
                'mode': mode}
    if prop == 'C11':
        w = W.gen_world(rng, 'c11')
        bias = [d['name'] for d in w['defaults'] if d['dep']] + \
            w['old_names']
        # some histories leave the main file alone for long stretches:
        # several directory-only rebuilds in a row
        ops, mix = W.gen_ops(rng, w, bias=bias or None,
                             main_bias=rng.choice((0.35, 0.35, 0.1, 0.0)))
        if rng.random() < 0.12:
            ops = directory_only_prefix(rng, w) + ops
        ops = add_late_registration(rng, w, ops)
        return {'prop': prop, 'world': w, 'ops': ops, 'mix': mix,
                'mode': mode}
    raise ValueError(prop)


SHORT_LEN = 3
SHORT_WORLDS = 6


def short_alphabet(w, rng):
    """A small alphabet for the systematic short-history mode: on the main
    file and on two directory files, {write A, write B, empty, touch,
    unlink}, plus an explicit check."""
    paths = ['etc/' + W.main_name(w)]
    for d in w['conf']['policy_dirs']:
        if d == 'gone.d':
            continue
        rel = W.dir_rel(d)
        for fn in ('a.yaml', 'B.yaml'):
            if len(paths) < 3:
                paths.append(rel + '/' + fn)
    alpha = [{'op': 'check'}]
    for p in paths:
        a = W.gen_mapping(rng, w, kmax=2)
        b = W.gen_mapping(rng, w, kmax=3)
        for k, rules in (('write', a), ('replace', b), ('empty', {}),
                         ('touch', None), ('unlink', None)):
            op = {'op': k, 'path': p, 'dt': rng.choice(W.DTS)}
            if rules is not None:
                op['rules'] = rules
                op['style'] = W.style_for(rng, p)
            alpha.append(op)
    return alpha


def short_case(base, i):
    """Systematic mode: run i is the i-th history of length <= SHORT_LEN
    over the small alphabet of one of SHORT_WORLDS seeded worlds (a world
    is revisited with the next history once all worlds had their turn)."""
    wi = i % SHORT_WORLDS
    k = i // SHORT_WORLDS
    rng = core.rng_for(base, 'C10', wi, 'short-world')
    while True:
        w = W.gen_world(rng, 'c10')
        if any(d != 'gone.d' for d in w['conf']['policy_dirs']):
            break
    alpha = short_alphabet(w, rng)
    if wi % 2:
        # odd worlds start with the alphabet's own "write" content on
        # disk, so that unlink + write re-creates a byte-identical file
        for op in alpha:
            if op['op'] == 'write':
                w['files'][op['path']] = {'rules': copy.deepcopy(
                    op['rules']), 'style': op['style']}
                parent = op['path'].rsplit('/', 1)[0]
                if parent not in w['mkdirs']:
                    w['mkdirs'].append(parent)
    # every other history observes after each step instead of only at
    # explicit checks (an enforcement call between any two edits)
    eager = (k % 2 == 1)
    k //= 2
    n = len(alpha)
    seq = []
    # enumerate lengths 1..SHORT_LEN in order
    for length in range(1, SHORT_LEN + 1):
        if k < n ** length:
            for _ in range(length):
                seq.append(copy.deepcopy(alpha[k % n]))
                k //= n
            break
        k -= n ** length
    else:
        # beyond the enumeration: a seeded length-4 history
        r2 = core.rng_for(base, 'C10', i, 'short-tail')
        seq = [copy.deepcopy(r2.choice(alpha)) for _ in range(SHORT_LEN + 1)]
    if eager:
        seq2 = []
        for op in seq:
            seq2.append(op)
            if op['op'] != 'check':
                seq2.append({'op': 'probe', 'i': k + len(seq2)})
        seq = seq2
    seq.append({'op': 'check'})
    return {'prop': 'C10', 'world': w, 'ops': seq, 'mix': 'short',
            'mode': 'short'}


def short_total(w_alpha=16):
    return SHORT_WORLDS * sum(w_alpha ** k for k in range(1, SHORT_LEN + 1))


def sparsify(rng, w):
    """A dirs-only deployment reduced to its minimum: no main policy file,
    one policy directory holding one file that overrides a registered name
    which another registered default reaches through rule:. Deleting that
    file makes the rebuild load nothing at all."""
    regs = w['defaults']
    dirs = [x for x in w['conf']['policy_dirs']
            if x not in ('gone.d', 'late.d')]
    if len(regs) < 2 or not dirs:
        return False
    x = regs[0]['name']
    if regs[1]['dep'] is None or regs[1]['dep']['name'] != x:
        regs[1]['ast'] = rng.choice((
            ['rule', x], ['or', [['false'], ['rule', x]]],
            ['and', [['rule', x], ['not', ['false']]]]))
    rel = W.dir_rel(dirs[0])
    for p in list(w['files']):
        if not p.endswith('.store') and p != 'etc/svc.conf':
            del w['files'][p]
    w['dirlinks'] = {}
    fn = rng.choice(W.DIR_FILE_POOL[:4])
    w['files'][rel + '/' + fn] = {
        'rules': {x: W.gen_rule_for(rng, w, x, depth=0)},
        'style': W.style_for(rng, fn)}
    return rel + '/' + fn


def directory_only_prefix(rng, w):
    """Directed prefix for deprecation histories: the main file exists and
    stays untouched while the policy directory is rebuilt twice - first with
    the old-name override still in place, then with it removed - and the
    enforcer is asked in between."""
    dirs = [x for x in w['conf']['policy_dirs']
            if x not in ('gone.d', 'late.d')]
    if not w['old_names'] or not dirs:
        return []
    rel = W.dir_rel(dirs[0])
    old = rng.choice(w['old_names'])
    main = 'etc/' + W.main_name(w)
    if main not in w['files']:
        w['files'][main] = {'rules': W.gen_mapping(rng, w, kmax=2),
                            'style': W.style_for(rng, main)}
    f1, f2 = rel + '/a.yaml', rel + '/B.yaml'
    ov = W.gen_rule_for(rng, w, old)
    w['files'][f1] = {'rules': {old: ov}, 'style': 'yaml_dq'}
    w['files'].setdefault(f2, {'rules': {}, 'style': 'json'})
    if rel not in w['mkdirs']:
        w['mkdirs'].append(rel)
    dt = lambda: rng.choice(W.DTS)        # noqa
    second = rng.choice((
        {'op': 'unlink', 'path': f1, 'dt': dt()},
        {'op': 'empty', 'path': f1, 'dt': dt(), 'rules': {},
         'style': 'yaml_dq'},
        {'op': 'write', 'path': f1, 'dt': dt(), 'style': 'yaml_dq',
         'rules': {n: a for n, a in W.gen_mapping(rng, w).items()
                   if n != old}}))
    return [{'op': 'check'},
            rng.choice(({'op': 'touch', 'path': f2, 'dt': dt()},
                        {'op': 'write', 'path': f2, 'dt': dt(),
                         'rules': {n: a for n, a in
                                   W.gen_mapping(rng, w).items()
                                   if n != old}, 'style': 'json'})),
            {'op': 'probe', 'i': rng.randrange(1 << 16)},
            second, {'op': 'check'}]


def vanished_main_prefix(rng, w):
    """Directed prefix: the main file is loaded and then deleted while the
    policy directory holds no rule; the enforcer is asked in that state;
    then a directory file appears that overrides the old name of a renamed
    default, and the very next decision is about the new name."""
    dirs = [x for x in w['conf']['policy_dirs']
            if x not in ('gone.d', 'late.d')]
    if not w['old_names'] or not dirs:
        return []
    old = rng.choice(w['old_names'])
    succ = [x['name'] for x in w['defaults']
            if x['dep'] and x['dep']['name'] == old]
    main = 'etc/' + W.main_name(w)
    for p in list(w['files']):
        if p != main and not p.startswith('etc/svc'):
            del w['files'][p]
    w['dirlinks'] = {}
    w['files'][main] = {'rules': W.gen_mapping(rng, w, kmax=2),
                        'style': W.style_for(rng, main)}
    rel = W.dir_rel(dirs[0])
    if rel not in w['mkdirs']:
        w['mkdirs'].append(rel)
    probes = W.probes_for(w)
    cand = [i for i, p in enumerate(probes) if p[0] in succ]
    dt = lambda: rng.choice(W.DTS)        # noqa
    return [{'op': 'check'},
            {'op': 'unlink', 'path': main, 'dt': dt()},
            {'op': 'probe', 'i': rng.randrange(1 << 16)},
            {'op': 'write', 'path': rel + '/a.yaml', 'dt': dt(),
             'rules': {old: W.gen_rule_for(rng, w, old)},
             'style': 'yaml_dq'},
            {'op': 'probe', 'i': rng.choice(cand) if cand
             else rng.randrange(1 << 16)},
            {'op': 'check'}]


def add_late_registration(rng, w, ops):
    """When the world marks defaults as late, the long-lived enforcer
    starts without them, loads at least once, and gets them registered at
    a seeded point of the history; nothing is judged before that point
    (earlier observations become plain loads)."""
    if not any(d.get('late') for d in w['defaults']):
        return ops
    k = rng.randint(0, max(0, min(len(ops) - 1, 4)))
    head = []
    for op in ops[:k]:
        if op['op'] in ('check', 'probe'):
            head.append({'op': 'load'})
        else:
            head.append(op)
    return head + [{'op': 'load'}, {'op': 'register'}] + ops[k:]


def add_races(rng, w, ops):
    """Racing sub-mode: turn some edits into edits that land between two
    file-system calls of one enforcement call. Deletes never race (the
    property does not regulate a file vanishing mid-reload)."""
    out = []
    for op in ops:
        if op['op'] in ('write', 'replace', 'empty', 'touch') and \
                rng.random() < 0.6:
            out.append({'op': 'race', 'at': rng.randint(1, 14),
                        'i': rng.randrange(1 << 16), 'edit': op})
        elif op['op'] == 'unlink' and rng.random() < 0.5:
            continue
        else:
            out.append(op)
    return out


# ------------------------------------------------------------- execution

def _namekind(w, name):
    reg = {d['name']: d for d in w['defaults']}
    if name in reg:
        return 'deprecated-registered' if reg[name]['dep'] else 'registered'
    if name in w['old_names']:
        return 'old-name'
    if name.startswith('@tree:'):
        return 'check-object'
    if name.startswith('which:'):
        return 'file-selection'
    if name == W.NEVER:
        return 'undefined-name'
    if name == 'default':
        return 'default-rule'
    return 'file-only'


def _c11_names(w):
    s = set(w['old_names'])
    for d in w['defaults']:
        if d['dep']:
            s.add(d['name'])
    return s


def c11_row(ds, name, main):
    """Identify the row of the documented table a deprecated name is in."""
    w = ds.w
    d = ds.model.reg[name]
    dep = d['dep']
    file_def = {}
    where = {}
    layers = ds.model.layers(ds.content, ds.dirs, main)
    has_main = ('etc/' + main) in ds.content
    for i, mp in enumerate(layers):
        for n in mp:
            file_def[n] = mp[n]
            where[n] = 'main' if (i == 0 and has_main) else 'dir'
    old = 'n/a'
    if dep['name'] != name:
        if dep['name'] not in file_def:
            old = 'absent'
        elif file_def[dep['name']] == ['rule', name]:
            old = 'alias'
        elif file_def[dep['name']] == dep['ast']:
            old = 'equal'
        else:
            old = 'other'
    return ('renamed' if dep['name'] != name else 'same-name',
            'same-str' if rast.show(dep['ast']) == rast.show(d['ast'])
            else 'diff-str',
            'new-defaults' if w['conf']['enforce_new_defaults']
            else 'old-or-new',
            'new-override-' + where[name] if name in file_def
            else 'no-new-override',
            'old-' + old + ('-' + where[dep['name']]
                            if old not in ('n/a', 'absent') else ''))


def execute(case, backend='sim', record=False):
    """Run one case. Returns a dict with 'violation' (first one, or None),
    'digest', 'counters', 'states', 'observations' (when record)."""
    core.boot()
    prop = case['prop']
    w = case['world']
    dg = core.Digest()
    ds = W.DiskSim(w, backend=backend, digest=dg if backend == 'sim'
                   else None)
    cnt = core.Counter()
    states = set()
    obs = []
    viol = None
    try:
        has_reg = any(op['op'] == 'register' for op in case['ops'])
        L = ds.make_enforcer(include_late=not has_reg)
        main0, main_constrained = ds.model_main()
        loaded = [False]
        deleted_content = {}
        last_content = {p: (f['rules'], f['style'])
                        for p, f in w['files'].items()}
        c11_names = _c11_names(w) if prop == 'C11' else None
        reg = ds.model.reg

        def file_def():
            fd = {}
            for mp in ds.model.layers(ds.content, ds.dirs, W.main_name(w)
                                      if prop != 'C09' else main0):
                fd.update(mp)
            return fd

        def judge(step, who, probe, got, want, clause):
            nonlocal viol
            if viol is None:
                viol = {'prop': prop, 'step': step, 'who': who,
                        'probe': [probe[0], list(probe[1]), probe[2]],
                        'got': got, 'want': want,
                        'sig': '%s:%s' % (clause, _namekind(w, probe[0]))}

        def observe(step, idxs):
            """Judge L (and a fresh F) on the probes with these indices."""
            nonlocal main0, main_constrained
            # the long-lived enforcer is asked in a rotated order, so that
            # every probe gets to be the FIRST decision after an edit once
            # in a while (state that is wrong for exactly one call)
            k0 = (step * 7 + len(ds.content)) % len(idxs)
            idxs = list(idxs[k0:]) + list(idxs[:k0])
            probes = [ds.probes[i] for i in idxs]
            lt = [ds.decide(L, p) for p in probes]
            loaded[0] = True
            F = ds.make_enforcer()
            if prop == 'C09':
                # the fresh enforcer is loaded explicitly, forcibly, twice,
                # or only implicitly by the first decision
                how = (step + len(probes) + len(ds.content)) % 4
                try:
                    if how == 1:
                        F.load_rules()
                    elif how == 2:
                        F.load_rules(force_reload=True)
                    elif how == 3:
                        F.load_rules()
                        F.load_rules(force_reload=True)
                except Exception as ex:   # noqa
                    dg.add('fresh-load', type(ex).__name__)
                cnt.hit('fresh_enforcer_load_mode_%d' % how)
            ft = [ds.decide(F, p) for p in probes]
            dg.add('obs', step, lt, ft)
            if record:
                obs.append((step, lt, ft))
            cnt.hit('observations')
            cnt.hit('decisions_compared', len(probes))
            if prop == 'C10':
                for p, a, b in zip(probes, lt, ft):
                    if a != b:
                        cl = 'L-raises-' + a[4:] if isinstance(a, str) \
                            else 'L-stale'
                        judge(step, 'L', p, a, b, cl)
                        break
            else:
                fm, fm_con = ds.model_main()
                main = fm if prop == 'C09' else W.main_name(w)
                eff, unc = ds.model.effective(ds.content, ds.dirs, main)
                mt = [ds.model.decide(eff, unc, n, r, s)
                      for (n, r, s) in probes]
                if prop == 'C09':
                    pf = w['conf']['pf']
                    cnt.hit('row:%s/%s/%s/%s/exists=%s' % (
                        pf['how'], pf['value'],
                        'fallback' if pf['fallback'] else 'no-fallback',
                        'ctor-arg' if pf['ctor'] else 'no-ctor-arg',
                        ''.join('1' if ('etc/' + m_) in ds.content else '0'
                                for m_ in W.MAIN_CANDIDATES)))
                    if fm == 'policy.json' and not pf['ctor']:
                        cnt.hit('probe:legacy_json_fallback_taken')
                    for p, b, m in zip(probes, ft, mt):
                        if m is None or not fm_con:
                            cnt.hit('unconstrained_skipped')
                            continue
                        if b != m:
                            judge(step, 'F', p, b, m, 'fresh!=model')
                            break
                else:
                    for p, a, b, m in zip(probes, lt, ft, mt):
                        if p[0] not in c11_names:
                            continue
                        if m is None:
                            cnt.hit('unconstrained_skipped')
                            continue
                        if b != m:
                            judge(step, 'F', p, b, m, 'fresh!=table')
                            break
                        if a != m:
                            judge(step, 'L', p, a, m, 'long-lived!=table')
                            break
                    for n in c11_names:
                        if n in reg and reg[n]['dep']:
                            cnt.hit('row:' + '/'.join(
                                c11_row(ds, n, main)))
                st = hashlib.sha256(repr(
                    sorted((k, rast.show(v)) for k, v in eff.items())
                ).encode()).hexdigest()[:12]
                states.add(st)
            if prop == 'C10':
                eff, _ = ds.model.effective(ds.content, ds.dirs,
                                            W.main_name(w))
                states.add(hashlib.sha256(repr(
                    (sorted((k, rast.show(v)) for k, v in eff.items()),
                     sorted(ds.content))).encode()).hexdigest()[:12])

        def edit(op):
            before = file_def() if prop != 'C09' else None
            rel = op['path']
            is_main = rel == 'etc/' + W.main_name(w)
            existed = rel in ds.content
            if not ds.apply(op):
                return
            cnt.hit('edits')
            if op.get('restores'):
                cnt.hit('probe:earlier_content_restored')
            if not existed and op['op'] != 'unlink' and \
                    rel in deleted_content and \
                    deleted_content[rel] == (op.get('rules'),
                                             op.get('style')):
                cnt.hit('probe:deleted_file_recreated_identical')
            if op['op'] == 'unlink':
                deleted_content[rel] = last_content.get(rel)
            elif 'rules' in op:
                last_content[rel] = (op['rules'], op['style'])
            if prop == 'C09':
                return
            after = file_def()
            if is_main:
                if op['op'] == 'unlink' and loaded[0]:
                    cnt.hit('probe:main_deleted_after_load')
                if not existed and loaded[0]:
                    cnt.hit('probe:main_created_after_start')
                if any(posixpath.dirname(p) != 'etc' and ds.content[p]
                       and not posixpath.basename(p).startswith('.')
                       for p in ds.content if p != rel):
                    cnt.hit('probe:main_changed_with_dir_overrides')
            else:
                cnt.hit('probe:dir_changed')
            for n in before:
                if n not in after:
                    if n in reg:
                        cnt.hit('probe:override_removed_default_visible')
                    if n in w['old_names']:
                        cnt.hit('probe:old_name_override_removed')

        all_idx = list(range(len(ds.probes)))
        for step, op in enumerate(case['ops']):
            k = op['op']
            if k in EDITS:
                edit(op)
            elif k in ('load', 'force'):
                try:
                    if k == 'force':
                        L.load_rules(force_reload=True)
                    else:
                        L.load_rules()
                    r = 'ok'
                except Exception as ex:   # noqa
                    r = 'EXC:' + type(ex).__name__
                loaded[0] = True
                dg.add('load', step, k, r)
                cnt.hit('loads')
                if r != 'ok' and prop == 'C10':
                    F = ds.make_enforcer()
                    try:
                        F.load_rules()
                        fr = 'ok'
                    except Exception as ex:   # noqa
                        fr = 'EXC:' + type(ex).__name__
                    if fr == 'ok':
                        judge(step, 'L', ('<load_rules>', (), False), r,
                              'ok', 'L-raises-' + r[4:])
            elif k == 'register':
                # the service registers more defaults on the running
                # enforcer (plugins loaded late)
                try:
                    L.register_defaults(ds.late_defaults())
                except Exception as ex:   # noqa
                    dg.add('register', step, type(ex).__name__)
                ds._late_objs = []
                cnt.hit('probe:defaults_registered_after_first_load')
            elif k == 'probe':
                observe(step, [op['i'] % len(ds.probes)])
            elif k == 'check':
                observe(step, all_idx)
            elif k == 'race':
                fired = [False]
                count = [0]
                e = op['edit']

                def hook(kind, path):
                    count[0] += 1
                    if count[0] == op['at'] and not fired[0]:
                        fired[0] = True
                        ds.fs.hook = None
                        edit(e)
                        cnt.hit('fault:edit_inside_enforce_call')
                        cnt.hit('race_before:' + kind)
                ds.fs.hook = hook
                r = ds.decide(L, ds.probes[op['i'] % len(ds.probes)])
                ds.fs.hook = None
                loaded[0] = True
                dg.add('race', step, r, fired[0])
                if not fired[0]:
                    edit(e)
                    cnt.hit('race_landed_after_call')
            else:
                raise core.HarnessError('unknown op %r' % k)
            if viol is not None:
                break
        fs = ds.fs
        cnt.merge(ds.counters)
        cnt.hit('fs_calls', fs.calls)
        cnt.hit('listings', fs.listings)
        cnt.hit('fault:readdir_order_not_sorted', fs.shuffled_listings)
        simtime = fs.simtime
    finally:
        ds.close()
    return {'violation': viol, 'digest': dg.hex(), 'counters': dict(cnt),
            'states': sorted(states), 'simtime': simtime,
            'observations': obs, 'events': dg.n}


# ------------------------------------------------------------- shrinking

def shrink(case, sig, budget=600):
    """Reduce the op list (ddmin), then each op's content, then the world,
    while a violation with the same signature persists."""
    calls = [0]

    def fails(c):
        calls[0] += 1
        try:
            v = execute(c)['violation']
        except core.HarnessError:
            return False
        return v is not None and v['sig'] == sig

    def with_ops(ops):
        c = dict(case)
        c['ops'] = ops
        return c

    case = copy.deepcopy(case)
    ops = core.ddmin(case['ops'], lambda o: fails(with_ops(o)),
                     budget=budget // 2)
    case['ops'] = ops
    # simplify file contents: drop rules, then simplify expressions
    changed = True
    while changed and calls[0] < budget:
        changed = False
        holders = [op for op in case['ops'] if op.get('rules')] + \
            [op['edit'] for op in case['ops']
             if op['op'] == 'race' and op['edit'].get('rules')] + \
            [f for f in case['world']['files'].values() if f['rules']]
        for h in holders:
            for n in list(h['rules']):
                saved = h['rules'].pop(n)
                if calls[0] < budget and fails(case):
                    changed = True
                    continue
                h['rules'][n] = saved
                for cand in rast.simplifications(saved):
                    if rast.size(cand) >= rast.size(saved) and \
                            cand[0] not in ('true', 'false'):
                        continue
                    h['rules'][n] = cand
                    if calls[0] < budget and fails(case):
                        changed = True
                        break
                    h['rules'][n] = saved
    # drop initial files
    for rel in sorted(case['world']['files']):
        saved = case['world']['files'].pop(rel)
        if not (calls[0] < budget and fails(case)):
            case['world']['files'][rel] = saved
    # drop registered defaults that nothing needs (keeps references valid
    # because later defaults may only reference earlier ones: try from the
    # end)
    w = case['world']
    for d in list(reversed(w['defaults'])):
        w2 = copy.deepcopy(w)
        w2['defaults'] = [x for x in w2['defaults']
                          if x['name'] != d['name']]
        used = set()
        for x in w2['defaults']:
            used |= rast.refs(x['ast'])
            if x['dep']:
                used |= rast.refs(x['dep']['ast'])
        c2 = dict(case)
        c2['world'] = w2
        txt = repr([case['ops'], w2['files']])
        if d['name'] in used or ("'%s'" % d['name']) in txt:
            continue
        w2['universe'] = [n for n in w2['universe'] if n != d['name']]
        w2['probe_names'] = [n for n in w2['probe_names']
                             if n != d['name']]
        if calls[0] < budget and fails(c2):
            case = c2
            w = w2
    return case, calls[0]


# ------------------------------------------------------ engine interface

PROPS = ('C09', 'C10', 'C11')

TIERS = {
    'C09': {'quick': [('plain', 4000)], 'thorough': [('plain', 400000)]},
    'C10': {'quick': [('plain', 2400), ('race', 600), ('short', 3264)],
            'thorough': [('plain', 240000), ('race', 60000),
                         ('short', 52416)]},
    'C11': {'quick': [('plain', 3000)], 'thorough': [('plain', 200000)]},
}


def make_case(base, prop, i, mode):
    return gen_case(base, prop, i, mode)


def run_one(base, i, prop=None, mode='plain'):
    case = gen_case(base, prop, i, mode)
    r = execute(case)
    n_edits = r['counters'].get('edits', 0)
    return {'index': i, 'digest': r['digest'], 'violation': r['violation'],
            'counters': r['counters'], 'states': r['states'],
            'simtime': r['simtime'], 'events': r['events'],
            'nontrivial': bool(r['counters'].get('observations')) and
            (prop == 'C09' or n_edits > 0)}


def sample_repr(case):
    w = case['world']
    return {
        'defaults': [
            {'name': d['name'], 'check': rast.show(d['ast']),
             'deprecated': d['dep'] and {'name': d['dep']['name'],
                                         'check': rast.show(d['dep']['ast'])},
             'scope_types': d['scope']} for d in w['defaults']],
        'conf': w['conf'],
        'initial_files': {p: {n: rast.show(a)
                              for n, a in f['rules'].items()}
                          for p, f in sorted(w['files'].items())},
        'history': [_op_repr(o) for o in case['ops']],
    }


def _op_repr(o):
    if o['op'] == 'race':
        return {'race_at_fs_call': o['at'], 'edit': _op_repr(o['edit'])}
    r = {'op': o['op']}
    if 'path' in o:
        r['path'] = o['path']
        r['dt'] = o['dt']
    if 'rules' in o:
        r['rules'] = {n: rast.show(a) for n, a in o['rules'].items()}
    return r


def fidelity(case):
    """Replay the case on a real scratch directory (mtimes set explicitly
    from the simulated clock) and compare every observed decision with the
    SimFS execution. Returns None when identical."""
    a = execute(case, backend='sim', record=True)
    b = execute(case, backend='real', record=True)
    if a['observations'] != b['observations']:
        return {'sim': a['observations'][:3], 'real': b['observations'][:3]}
    if (a['violation'] is None) != (b['violation'] is None):
        return {'sim_violation': a['violation'],
                'real_violation': b['violation']}
    return None


META = {
    'C09': {
        'level': 'exploration',
        'technique': 'deterministic simulation: seeded worlds on a simulated '
                     'disk (adversarial readdir order, seeded clock) vs an '
                     'executable reference model of the documented layering',
        'rule': 'one case = one seeded world (registered defaults, main-file '
                'candidates, up to 3 policy directories with sort-order-'
                'sensitive names, dot-files, sub-directory decoy, missing '
                'directories, JSON/YAML spellings, policy_file selection row) '
                'plus an optional short edit prefix; a fresh Enforcer built '
                'through the public API is compared with the reference model '
                'on every probe name x every role subset (x scope for scoped '
                'defaults). Distinct = distinct event-log digest; non-trivial '
                '= at least one full table comparison took place.',
    },
    'C10': {
        'level': 'exploration',
        'technique': 'deterministic simulation: seeded operator/enforcement '
                     'histories with injected disk events on a simulated '
                     'disk and clock; restart-equivalence oracle (long-lived '
                     'enforcer vs fresh enforcer on the same disk)',
        'rule': 'one case = seeded world + history of operator edits (write '
                'in place, replace via rename, empty, touch, unlink, create, '
                'each advancing the simulated clock) interleaved with loads, '
                'forced loads, single probes and full checks; race mode lands '
                'edits between two file-system calls of one enforce call. '
                'After every observation the long-lived enforcer must decide '
                'as a fresh one. Distinct = distinct event-log digest; '
                'non-trivial = at least one edit applied and one observation '
                'judged.',
    },
    'C11': {
        'level': 'exploration',
        'technique': 'deterministic simulation: seeded override histories on '
                     'a simulated disk; long-lived and fresh enforcers vs an '
                     'executable model of the documented deprecation table',
        'rule': 'one case = seeded world whose defaults carry deprecated '
                'predecessors (renamed/same name, same/different check '
                'string, shared predecessors, enforce_new_defaults on/off) + '
                'history that adds, changes, aliases, moves and removes '
                'overrides under old and new names in the main file and in '
                'policy directories. After every observation both the '
                'long-lived and a fresh enforcer must equal the table on all '
                'role subsets. Distinct = distinct event-log digest; '
                'non-trivial = at least one edit and one observation.',
    },
}
ASSUMPTIONS = [
    'SimFS models POSIX mtime semantics (table in sim/simfs.py); validated '
    'per run against a real scratch directory on a sample of cases',
    'policy files are valid policy files; mtimes are positive and every '
    'edit advances the clock (as the property states)',
    'real code: oslo_policy, oslo.config (option parsing, find_file), '
    'yaml/json parsing; stub: disk below os.stat/listdir/scandir/open, the '
    'operator, the clock',
]


def case_size(case):
    return len(case['ops'])


COMPONENTS = {
    'real': ['oslo_policy (whole library from /repo)', 'oslo.config option '
             'parsing and find_file', 'PyYAML / json parsing'],
    'stub': ['disk below os.stat/lstat/listdir/scandir/access/open (SimFS)',
             'clock (mtimes only; advanced by the operator actor)',
             'the operator editing files'],
}
EXPECTED_PROBES = {
    'C10': ['main_changed_with_dir_overrides', 'dir_changed',
            'override_removed_default_visible', 'main_created_after_start',
            'main_deleted_after_load', 'old_name_override_removed',
            'readdir_order_not_sorted', 'edit_inside_enforce_call',
            'deleted_file_recreated_identical',
            'defaults_registered_after_first_load'],
    'C11': ['old_name_override_removed',
            'override_removed_default_visible',
            'defaults_registered_after_first_load'],
    'C09': ['readdir_order_not_sorted', 'legacy_json_fallback_taken',
            'file_is_symlink', 'symlink_to_directory_decoy'],
}
