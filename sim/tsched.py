"""Sched: the thread seam.

Real threading.Thread workers, exactly one runnable at a time; the baton is
passed through per-worker semaphores.  Pre-emption points are sys.settrace
line events (optionally opcode events) in frames whose code lives under
<repo>/oslo_policy/ (tests excluded).  A run executes a *plan*:

    [['T', worker, n_events | None], ['C', worker, n_calls], ['OP'], ...]

'T' lets `worker` run until n more events have fired in library frames (None:
to completion); 'C' lets it run until it has completed n more of its calls
(the worker function reports call boundaries through yield_point); 'OP'
applies the operator's next edit atomically.  Workers
block only at segment boundaries or on a cooperative lock held by a parked
worker, so a run costs about as much as the traced calls themselves.

Locks created by library code are cooperative (install_locks must run before
oslo_policy is imported): a contended acquire marks the worker blocked and
passes the baton; a state with unfinished workers and nobody runnable is
reported as a deadlock instead of hanging.
"""
import _thread
import sys
import threading

from sim import core

_RealLock = threading.Lock
_RealRLock = threading.RLock


class SimDeadlock(Exception):
    pass


class Sched:
    current = None

    def __init__(self, fns, plan, op_fn=None, opcodes=False, lib=None,
                 on_switch=None):
        self.lib = lib or core.LIB
        self.tests = self.lib + 'tests' + '/'
        self.fns = fns
        self.n = len(fns)
        self.plan = [list(s) for s in plan]
        self.seg = -1
        self.op_fn = op_fn
        self.opcodes = opcodes
        self.on_switch = on_switch
        self.go = [threading.Semaphore(0) for _ in fns]
        self.done = [False] * self.n
        self.started = [False] * self.n
        self.res = [None] * self.n
        self.exc = [None] * self.n
        self.steps = [0] * self.n
        self.blocked = [None] * self.n
        self.idx = {}
        self.fin = threading.Semaphore(0)
        self.dead = False
        self.deadlock = False
        self.log = []          # (who, steps, why, pos)
        self.lock_handovers = 0
        self.net_waits = 0
        self.ops_applied = 0
        self.in_load = [0] * self.n   # depth inside the public load step
        self.ops_pending = 0
        self.ops_deferred = 0
        self.remaining = None  # events left in the current 'T' segment
        self.calls_remaining = None  # calls left in the current 'C' segment

    # -- scheduling core (always called by the thread holding the baton)
    def _runnable(self, w):
        if self.done[w]:
            return False
        b = self.blocked[w]
        return b is None or b.free_for(w)

    def _next(self):
        """Advance to the next effective segment; return the worker to run
        or None when everything is finished (or deadlocked)."""
        while True:
            self.seg += 1
            if self.seg >= len(self.plan):
                rest = [i for i in range(self.n) if self._runnable(i)]
                if not rest:
                    if not all(self.done):
                        self.deadlock = True
                    else:
                        self._apply_pending_ops(force=True)
                    return None
                self.plan.append(['T', rest[0], None])
            s = self.plan[self.seg]
            if s[0] == 'OP':
                self.ops_pending += 1
                self._apply_pending_ops()
                continue
            self._apply_pending_ops()
            w = s[1]
            if not self._runnable(w):
                continue
            if s[0] == 'C':
                self.remaining = None
                self.calls_remaining = s[2]
            else:
                self.remaining = s[2]
                self.calls_remaining = None
            return w

    def net_wait(self):
        """Called from the simulated transport by the worker that is
        waiting for a peer's reply: the wait is a scheduling point, other
        workers (and the operator) run until the plan comes back to it."""
        i = self.idx.get(_thread.get_ident())
        if i is not None and not self.dead:
            self.net_waits += 1
            self._handover(i, 'net')

    def yield_point(self, i):
        """Called by worker i (outside library frames) after each of its
        calls: ends a 'C' segment once its calls are used up."""
        if self.calls_remaining is not None:
            self.calls_remaining -= 1
            if self.calls_remaining <= 0:
                self.calls_remaining = None
                self._handover(i, 'call')

    def _apply_pending_ops(self, force=False):
        """Operator edits land only while no worker is inside the public
        load step: a reload reads several files one after the other, and an
        edit in the middle of that would be a torn read of the disk (an
        operator-versus-reload race, which the properties do not regulate),
        not a thread interleaving. A deferred edit lands at the next segment
        boundary at which every worker is outside load_rules, at the latest
        when all workers have finished."""
        while self.ops_pending and self.op_fn is not None and (
                force or not any(self.in_load[i] > 0 and not self.done[i]
                                 for i in range(self.n))):
            self.ops_pending -= 1
            if self.op_fn():
                self.ops_applied += 1
                self.log.append(('OP', self.ops_applied, 'op', None))
        if self.ops_pending and self.op_fn is not None:
            self.ops_deferred += 1

    def _handover(self, me, why, pos=None):
        """Called by worker `me` holding the baton: pick the next worker,
        wake it and park (unless it is `me` again)."""
        self.log.append((me, self.steps[me], why, pos))
        if self.on_switch is not None:
            self.on_switch(me, why, pos)
        nxt = self._next()
        if nxt is None:
            if self.deadlock:
                self._kill_all(me)
                raise SimDeadlock()
            # everybody else is done; only possible if me is done too
            self.fin.release()
            return
        if nxt != me:
            self.go[nxt].release()
            self.go[me].acquire()
            if self.dead:
                raise SimDeadlock()

    def _kill_all(self, me):
        self.dead = True
        for i in range(self.n):
            if i != me and not self.done[i] and self.started[i]:
                self.go[i].release()
        self.fin.release()

    def _tracer_for(self, i):
        lib = self.lib
        tests = self.tests
        L = len(lib)
        opcodes = self.opcodes
        sched = self

        def local(frame, event, arg):
            if event == 'return':
                if frame.f_code.co_name == 'load_rules':
                    sched.in_load[i] -= 1
                return local
            if event == 'line' or event == 'opcode':
                if opcodes and event == 'line':
                    return local
                sched.steps[i] += 1
                r = sched.remaining
                if r is not None:
                    if r <= 0:
                        co = frame.f_code
                        sched._handover(
                            i, 'plan',
                            (co.co_filename[L:], co.co_name, frame.f_lineno))
                    else:
                        sched.remaining = r - 1
            return local

        def glob(frame, event, arg):
            fn = frame.f_code.co_filename
            if fn.startswith(lib) and not fn.startswith(tests):
                if frame.f_code.co_name == 'load_rules':
                    sched.in_load[i] += 1
                if opcodes:
                    frame.f_trace_opcodes = True
                return local
            return None
        return glob

    def _body(self, i):
        self.go[i].acquire()
        if self.dead:
            self.done[i] = True
            return
        self.started[i] = True
        self.idx[_thread.get_ident()] = i
        sys.settrace(self._tracer_for(i))
        try:
            self.res[i] = self.fns[i]()
        except SimDeadlock:
            self.exc[i] = SimDeadlock()
        except BaseException as e:   # noqa - recorded, judged by the oracle
            self.exc[i] = e
        finally:
            sys.settrace(None)
            self.done[i] = True
        if self.dead:
            return
        self.log.append((i, self.steps[i], 'done', None))
        nxt = self._next()
        if nxt is None:
            if self.deadlock:
                self._kill_all(i)
            else:
                self.fin.release()
        else:
            self.go[nxt].release()

    def run(self, timeout=60):
        Sched.current = self
        ts = [threading.Thread(target=self._body, args=(i,), daemon=True,
                               name='simworker-%d' % i)
              for i in range(self.n)]
        for t in ts:
            t.start()
        try:
            first = self._next()
            if first is None:
                raise core.HarnessError('empty schedule')
            self.go[first].release()
            if not self.fin.acquire(timeout=timeout):
                raise core.HarnessError(
                    'hang: no worker finished or yielded within %ss '
                    '(blocked on a primitive the simulator does not see?)'
                    % timeout)
        finally:
            Sched.current = None
        if not self.dead:
            for t in ts:
                t.join(10)
        else:
            for i, t in enumerate(ts):
                if not self.started[i]:
                    self.go[i].release()
                t.join(2)
        return self


class SimRLock:
    """Cooperative re-entrant lock for library code."""

    reentrant = True

    def __init__(self):
        self.owner = None
        self.count = 0

    @staticmethod
    def _me():
        s = Sched.current
        ident = _thread.get_ident()
        if s is not None and ident in s.idx:
            return s, s.idx[ident]
        return None, ('ext', ident)

    def free_for(self, w):
        if self.owner is None:
            return True
        return self.reentrant and self.owner == w

    def acquire(self, blocking=True, timeout=-1):
        s, me = self._me()
        while not self.free_for(me):
            if not blocking:
                return False
            if s is None:
                raise core.HarnessError(
                    'cooperative lock contended outside a simulated run')
            s.blocked[me] = self
            s.lock_handovers += 1
            try:
                s._handover(me, 'lock')
            finally:
                s.blocked[me] = None
        self.owner = me
        self.count += 1
        return True

    def release(self):
        if self.count <= 0:
            raise RuntimeError('release unlocked lock')
        self.count -= 1
        if self.count == 0:
            self.owner = None

    def locked(self):
        return self.owner is not None

    def _is_owned(self):
        return self.owner == self._me()[1]

    __enter__ = acquire

    def __exit__(self, *a):
        self.release()


class SimLock(SimRLock):
    reentrant = False

    def free_for(self, w):
        return self.owner is None


class _Waiter:
    def __init__(self):
        self.notified = False

    def free_for(self, w):
        return self.notified


class SimCondition:
    """Cooperative condition variable for library code (a monitor built
    with threading.Condition must not park a worker on a real lock)."""

    def __init__(self, lock=None):
        self._lock = lock if lock is not None else SimRLock()
        self._waiters = []
        self.acquire = self._lock.acquire
        self.release = self._lock.release

    def __enter__(self):
        return self._lock.__enter__()

    def __exit__(self, *a):
        return self._lock.__exit__(*a)

    def wait(self, timeout=None):
        s, me = SimRLock._me()
        lk = self._lock
        if lk.owner != me:
            raise RuntimeError('cannot wait on un-acquired lock')
        if s is None:
            raise core.HarnessError(
                'cooperative condition waited on outside a simulated run')
        depth, lk.count, lk.owner = lk.count, 0, None
        w = _Waiter()
        self._waiters.append(w)
        s.blocked[me] = w
        s.lock_handovers += 1
        try:
            s._handover(me, 'cond')
        finally:
            s.blocked[me] = None
            if w in self._waiters:
                self._waiters.remove(w)
        lk.acquire()
        lk.count = depth
        return True

    def wait_for(self, predicate, timeout=None):
        r = predicate()
        while not r:
            self.wait(timeout)
            r = predicate()
        return r

    def notify(self, n=1):
        for w in self._waiters[:n]:
            w.notified = True
        del self._waiters[:n]

    def notify_all(self):
        self.notify(len(self._waiters))

    notifyAll = notify_all


class SimSemaphore:
    """Cooperative counting semaphore for library code."""

    def __init__(self, value=1):
        if value < 0:
            raise ValueError('semaphore initial value must be >= 0')
        self._value = value
        self._initial = value

    def free_for(self, w):
        return self._value > 0

    def acquire(self, blocking=True, timeout=None):
        s, me = SimRLock._me()
        while self._value <= 0:
            if not blocking:
                return False
            if s is None:
                raise core.HarnessError(
                    'cooperative semaphore contended outside a simulated run')
            s.blocked[me] = self
            s.lock_handovers += 1
            try:
                s._handover(me, 'sem')
            finally:
                s.blocked[me] = None
        self._value -= 1
        return True

    def release(self, n=1):
        if n < 1:
            raise ValueError('n must be one or more')
        self._value += n

    __enter__ = acquire

    def __exit__(self, *a):
        self.release()


class SimBoundedSemaphore(SimSemaphore):
    def release(self, n=1):
        if self._value + n > self._initial:
            raise ValueError('Semaphore released too many times')
        SimSemaphore.release(self, n)


class SimEvent:
    """Cooperative event for library code. A wait with a timeout is a pure
    scheduling point (simulated time does not pass for threads), so it
    returns the flag after giving every other worker the chance to run."""

    def __init__(self):
        self._flag = False

    def free_for(self, w):
        return self._flag

    def is_set(self):
        return self._flag

    isSet = is_set

    def set(self):
        self._flag = True

    def clear(self):
        self._flag = False

    def wait(self, timeout=None):
        s, me = SimRLock._me()
        if self._flag:
            return True
        if s is None:
            if timeout is not None:
                return self._flag
            raise core.HarnessError(
                'cooperative event waited on outside a simulated run')
        s.lock_handovers += 1
        if timeout is not None:
            s._handover(me, 'event-timeout')
            return self._flag
        while not self._flag:
            s.blocked[me] = self
            try:
                s._handover(me, 'event')
            finally:
                s.blocked[me] = None
        return True


_RealCondition = threading.Condition
_RealSemaphore = threading.Semaphore
_RealBoundedSemaphore = threading.BoundedSemaphore
_RealEvent = threading.Event
_installed = False


def install_locks():
    """Replace threading.Lock/RLock by factories that hand library code a
    cooperative lock and everybody else the real thing."""
    global _installed
    if _installed:
        return
    _installed = True
    lib = core.LIB

    def rlock_factory(*a, **k):
        if sys._getframe(1).f_code.co_filename.startswith(lib):
            return SimRLock()
        return _RealRLock(*a, **k)

    def lock_factory(*a, **k):
        if sys._getframe(1).f_code.co_filename.startswith(lib):
            return SimLock()
        return _RealLock(*a, **k)

    def cond_factory(lock=None):
        if isinstance(lock, SimRLock) or (
                lock is None and
                sys._getframe(1).f_code.co_filename.startswith(lib)):
            return SimCondition(lock)
        return _RealCondition(lock)

    def _from_lib():
        return sys._getframe(2).f_code.co_filename.startswith(lib)

    def sem_factory(value=1):
        return SimSemaphore(value) if _from_lib() else _RealSemaphore(value)

    def bsem_factory(value=1):
        return (SimBoundedSemaphore(value) if _from_lib()
                else _RealBoundedSemaphore(value))

    def event_factory():
        return SimEvent() if _from_lib() else _RealEvent()

    threading.RLock = rlock_factory
    threading.Lock = lock_factory
    threading.Condition = cond_factory
    threading.Semaphore = sem_factory
    threading.BoundedSemaphore = bsem_factory
    threading.Event = event_factory
