"""Command line of the simulator.

  run.py setup
  run.py check <ID> [--tier quick|thorough]
  run.py replay <file>
  run.py digests <ID> <mode> <lo> <hi>      (used by the determinism test)
  run.py selftest [<ID> ...]                (sensitivity catalogue)

Exit status: 0 property held on everything explored; 1 violation (with a
`VIOLATION property=<id> replay=<path>` line); 2 harness error.
"""
import importlib
import json
import os
import subprocess
import sys
import time
import traceback

from sim import core

ENGINE_OF = {
    'C09': 'sim.disk_engine', 'C10': 'sim.disk_engine',
    'C11': 'sim.disk_engine', 'C12': 'sim.multi_engine',
    'C16': 'sim.remote_engine', 'C20': 'sim.sched_engine',
}


def engine(prop):
    return importlib.import_module(ENGINE_OF[prop])


def fidelity_one(base, i, prop=None, mode='plain'):
    eng = engine(prop)
    case = eng.make_case(base, prop, i, mode)
    return {'index': i, 'mismatch': eng.fidelity(case)}


def scale():
    try:
        return float(os.environ.get('VERIF_SCALE', '1'))
    except ValueError:
        return 1.0


def start_fresh_digests(prop, mode, lo, hi, hashseed):
    """Fresh interpreter, another PYTHONHASHSEED, one worker, ascending
    order; runs concurrently with the sweep."""
    env = dict(os.environ)
    env['PYTHONHASHSEED'] = str(hashseed)
    env['VERIF_WORKERS'] = '1'
    return subprocess.Popen(
        [sys.executable, os.path.join(core.VERIF, 'sim', 'run.py'),
         'digests', prop, mode, str(lo), str(hi)],
        env=env, stdout=subprocess.PIPE, stderr=subprocess.PIPE, text=True)


def collect_fresh_digests(proc):
    try:
        out, err = proc.communicate(timeout=3600)
    except subprocess.TimeoutExpired:
        proc.kill()
        raise core.HarnessError('fresh-interpreter digest run hung')
    if proc.returncode != 0:
        raise core.HarnessError('fresh-interpreter digest run failed: %s'
                                % err[-2000:])
    return json.loads(out.strip().splitlines()[-1])


def cmd_digests(prop, mode, lo, hi):
    eng = engine(prop)
    core.boot()
    eng.warm_up()
    base = core.base_seed()
    d = {}
    for i in range(lo, hi):
        d[str(i)] = eng.run_one(base, i, prop=prop, mode=mode)['digest']
    print(json.dumps(d))
    return 0


def cmd_check(prop, tier):
    t0 = time.time()
    eng = engine(prop)
    base = core.base_seed()
    core.boot()
    eng.warm_up()
    known = core.load_known()
    meta = eng.META[prop]
    subruns = [(m, max(8, int(n * scale())))
               for m, n in eng.TIERS[prop][tier]]
    wall_cap = float(os.environ.get(
        'VERIF_WALL_CAP', '480' if tier == 'quick' else '14400'))
    det_k = getattr(eng, 'DET_K', {}).get(tier) or \
        (32 if tier == 'quick' else 512)
    det_k = max(4, int(det_k * min(1, scale())))
    fresh = {}
    for mode, n in subruns:
        fresh[mode] = start_fresh_digests(prop, mode, 0, min(det_k, n),
                                          hashseed=12345 + len(mode))
    counters = core.Counter()
    states = set()
    digests_nontrivial = set()
    evaluations = 0
    simtime = 0.0
    events = 0
    violations = []          # (mode, index, violation)
    capped = False
    crashes = []
    per_mode = {}
    all_results = {}

    for mode, n in subruns:
        nviol = [0]

        def stop_on(r, nviol=nviol):
            if r.get('violation') is not None:
                nviol[0] += 1
            return nviol[0] >= 25
        left = wall_cap - (time.time() - t0)
        res, cap = core.run_many(ENGINE_OF[prop], 'run_one', base, n,
                                 extra={'prop': prop, 'mode': mode},
                                 wall_cap=max(30, left), stop_on=stop_on,
                                 chunk=getattr(eng, 'CHUNK', None))
        capped = capped or cap
        per_mode[mode] = len(res)
        all_results[mode] = {r['index']: r.get('digest') for r in res}
        for r in res:
            if 'crash' in r:
                crashes.append((mode, r['index'], r['crash']))
                all_results[mode].pop(r['index'], None)
                continue
            evaluations += 1
            counters.merge(r['counters'])
            states.update(r['states'])
            simtime += r['simtime']
            events += r['events']
            if r['nontrivial']:
                digests_nontrivial.add(r['digest'])
            if r['violation'] is not None:
                violations.append((mode, r['index'], r['violation']))
    sweep_wall = time.time() - t0

    # ---- violations: shrink, write replay files, verify them
    reported = []
    known_hits = []
    by_sig = {}
    for mode, i, v in violations:
        by_sig.setdefault(v['sig'], []).append((mode, i, v))
    unlisted = 0
    for sig in sorted(by_sig):
        mode, i, v = sorted(by_sig[sig], key=lambda x: (x[0], x[1]))[0]
        if (prop, sig) in known:
            known_hits.append((sig, known[(prop, sig)], len(by_sig[sig])))
            continue
        unlisted += len(by_sig[sig])
        if len(reported) >= 3:
            continue
        case = eng.make_case(base, prop, i, mode)
        n_before = eng.case_size(case)
        try:
            small, calls = eng.shrink(case, sig)
        except Exception:      # noqa - never lose a violation to the shrinker
            traceback.print_exc()
            small, calls = case, 0
        res = eng.execute(small)
        if res['violation'] is None or res['violation']['sig'] != sig:
            small, res = case, eng.execute(case)
        path = core.replay_path(prop, '%s_%s_%d' % (
            ''.join(c if c.isalnum() else '-' for c in sig)[:60], mode, i))
        core.write_json(path, {
            'property': prop, 'engine': ENGINE_OF[prop], 'seed': base,
            'index': i, 'mode': mode, 'signature': sig,
            'violation': res['violation'], 'case': small,
            'size_before_shrinking': n_before,
            'size_after_shrinking': eng.case_size(small),
            'shrink_executions': calls,
            'readable': eng.sample_repr(small)})
        ok = verify_replay(path, prop, sig)
        if not ok and small is not case:
            # the shrunk case depends on something the shrinker dropped
            # (e.g. state left behind by an earlier step of the same run):
            # fall back to the complete original case
            res0 = eng.execute(case)
            rp = json.load(open(path))
            rp.update(case=case, violation=res0['violation'],
                      size_after_shrinking=n_before,
                      shrink_note='shrunk case did not reproduce in a '
                      'fresh interpreter; this is the unshrunk case',
                      readable=eng.sample_repr(case))
            core.write_json(path, rp)
            ok = verify_replay(path, prop, sig)
        if not ok:
            # the violation may depend on state that an EARLIER simulated
            # run left behind in the same process (process-global state in
            # the library is itself a way for enforcers to influence one
            # another): replay the preceding cases of the same sub-run
            # first, as few of them as reproduce the violation
            rp = json.load(open(path))
            rp.update(case=case, size_after_shrinking=n_before,
                      readable=eng.sample_repr(case))
            found = None
            for k in (1, 2, 4, 8, 16, 32):
                lo = max(0, i - k)
                prelude = [eng.make_case(base, prop, j, mode)
                           for j in range(lo, i)]
                if not prelude:
                    break
                rp.update(prelude=prelude, prelude_indices=list(range(lo, i)))
                core.write_json(path, rp)
                if verify_replay(path, prop, sig):
                    found = (lo, prelude)
                    break
                if lo == 0:
                    break
            if found:
                ok = True
                lo, prelude = found
                for off, pc in list(enumerate(prelude))[-8:]:
                    rp.update(prelude=[pc], prelude_indices=[lo + off])
                    core.write_json(path, rp)
                    if verify_replay(path, prop, sig):
                        prelude, lo = [pc], lo + off
                        break
                rp.update(prelude=prelude,
                          prelude_indices=list(range(lo, lo + len(prelude))),
                          shrink_note='the violation needs state left in the '
                          'process by the preceding simulated run(s) listed '
                          'in prelude_indices; replay executes them first')
                core.write_json(path, rp)
            else:
                rp.pop('prelude', None)
                rp.pop('prelude_indices', None)
                core.write_json(path, rp)
        reported.append((sig, path, ok, len(by_sig[sig])))

    # ---- determinism + fidelity (harness self-tests)
    det = {'in_process_checked': 0, 'fresh_interpreter_checked': 0,
           'mismatches': 0}
    fid = {'checked': 0, 'mismatches': 0}
    if not hasattr(eng, 'fidelity'):
        fid['note'] = ('this engine has no real-disk replay; SimFS fidelity '
                       'is validated by the C09/C10/C11 checks')
    harness_problem = None
    try:
        for mode, n in subruns:
            kk = min(det_k, per_mode.get(mode, 0))
            idx = [j for j in range(kk) if j in all_results[mode]]
            if not idx:
                fresh[mode].kill()
                continue
            # same seeds again in this process tree, other worker count and
            # chunking (so other predecessors in the same worker)
            again, _ = core.run_many(
                ENGINE_OF[prop], 'run_one', base, idx[-1] + 1,
                extra={'prop': prop, 'mode': mode}, workers=5, chunk=3)
            for r in again:
                if 'crash' in r:
                    continue
                det['in_process_checked'] += 1
                if r['digest'] != all_results[mode].get(r['index']):
                    det['mismatches'] += 1
                    det.setdefault('first_mismatch', [mode, r['index']])
            fd = collect_fresh_digests(fresh[mode])
            for j in idx:
                det['fresh_interpreter_checked'] += 1
                if fd.get(str(j)) != all_results[mode][j]:
                    det['mismatches'] += 1
                    det.setdefault('first_mismatch', [mode, j, 'fresh'])
        if det['mismatches']:
            harness_problem = 'non-deterministic runs: %r' % det
        if hasattr(eng, 'fidelity') and not violations:
            m = max(4, int((48 if tier == 'quick' else 1500)
                           * min(1, scale())))
            mode = subruns[0][0]
            res, _ = core.run_many('sim.cli', 'fidelity_one', base,
                                   min(m, per_mode.get(mode, 0)),
                                   extra={'prop': prop, 'mode': mode})
            for r in res:
                fid['checked'] += 1
                if r['mismatch'] is not None:
                    fid['mismatches'] += 1
                    fid.setdefault('first', r)
            if fid['mismatches']:
                harness_problem = 'SimFS disagrees with a real disk: %r' \
                    % fid.get('first')
    except core.HarnessError as e:
        harness_problem = str(e)

    # ---- evidence
    wall = time.time() - t0
    probes = {k[6:]: v for k, v in counters.items()
              if k.startswith('probe:')}
    faults = {k[6:]: v for k, v in counters.items()
              if k.startswith('fault:')}
    rows = sorted(k[4:] for k in counters if k.startswith('row:'))
    expected = getattr(eng, 'EXPECTED_PROBES', {}).get(prop, [])
    if tier == 'quick':
        expected = getattr(eng, 'EXPECTED_PROBES_QUICK', {}).get(
            prop, expected)
    stuck = [p for p in expected
             if not probes.get(p) and not faults.get(p)]
    samples = []
    for mode, n in subruns:
        for j in range(min(2, per_mode.get(mode, 0))):
            samples.append({'mode': mode, 'index': j,
                            'case': eng.sample_repr(
                                eng.make_case(base, prop, j, mode))})
    coverage = {
        'evaluations': evaluations,
        'distinct_nontrivial': len(digests_nontrivial),
        'rule': meta['rule'],
        'samples': samples[:4],
        'exhaustive': False,
        'subruns': per_mode,
        'runs_per_hour': int(evaluations / max(sweep_wall, 1e-6) * 3600),
        'simulated_time_s': round(simtime, 3),
        'events_logged': events,
        'fault_kinds_fired': faults,
        'operation_kinds': {k: v for k, v in counters.items()
                            if k.startswith('op_') or k in (
                                'edits', 'loads', 'observations',
                                'decisions_compared', 'fs_calls',
                                'unconstrained_skipped')},
        'probes': probes,
        'knobs_drawn': {k[5:]: v for k, v in counters.items()
                        if k.startswith('knob:')},
        'probes_stuck_at_zero': stuck,
        'reach_ok': not stuck,
        'distinct_states': len(states),
        'states_measure': meta.get(
            'states_measure', 'hash of the model-side effective policy '
            '(+ set of existing files) at each observation'),
        'determinism': det,
        'fidelity_vs_real_disk': fid,
        'wall_cap_hit': capped,
        'components': getattr(eng, 'COMPONENTS', None),
    }
    if rows:
        coverage['table_rows_reached'] = len(rows)
        coverage['table_rows'] = rows[:400]
    summ = getattr(eng, 'summarise_states', None)
    if summ:
        coverage.update(summ(states))
    extra_cov = getattr(eng, 'extra_coverage', None)
    if extra_cov:
        coverage.update(extra_cov(prop, counters))
    core.write_evidence(prop, tier, base, meta['level'], coverage, wall,
                        unlisted, eng.ASSUMPTIONS,
                        extra={'technique': meta['technique'],
                               'known_findings_seen': [
                                   {'sig': s, 'count': c}
                                   for s, _, c in known_hits]})

    # ---- verdict
    for sig, text, c in known_hits:
        print('KNOWN-FINDING: property=%s sig=%s %s (seen in %d runs)'
              % (prop, sig, text, c))
    status = core.EXIT_OK
    for sig, path, ok, c in reported:
        print('VIOLATION property=%s replay=%s' % (prop, path))
        print('  signature=%s runs=%d replay_reproduces=%s' % (sig, c, ok))
        status = core.EXIT_VIOLATION
    print('%s %s: %d runs (%s), %d distinct non-trivial, %d violating '
          'runs, %.1fs' % (prop, tier, evaluations, per_mode,
                           len(digests_nontrivial), len(violations), wall))
    if crashes:
        print('%d run(s) raised an unexpected exception inside the '
              'simulator; first (%s #%d):\n%s' % (
                  len(crashes), crashes[0][0], crashes[0][1],
                  crashes[0][2][-1500:]))
        if status == core.EXIT_OK and not harness_problem:
            harness_problem = 'unexpected exception in %d run(s)' \
                % len(crashes)
    if status == core.EXIT_OK and harness_problem:
        print('HARNESS-ERROR property=%s %s' % (prop, harness_problem))
        return core.EXIT_HARNESS
    if status == core.EXIT_OK and capped and evaluations == 0:
        print('HARNESS-ERROR property=%s nothing ran before the wall cap'
              % prop)
        return core.EXIT_HARNESS
    return status


def verify_replay(path, prop, sig):
    env = dict(os.environ)
    env['PYTHONHASHSEED'] = '0'
    out = subprocess.run(
        [sys.executable, os.path.join(core.VERIF, 'sim', 'run.py'),
         'replay', path], env=env, capture_output=True, text=True,
        timeout=1800)
    return out.returncode == 1 and \
        ('VIOLATION property=%s' % prop) in out.stdout and \
        ('signature=%s' % sig) in out.stdout


def cmd_replay(path):
    with open(path) as f:
        rp = json.load(f)
    prop = rp['property']
    eng = engine(prop)
    core.boot()
    eng.warm_up()
    for pc in rp.get('prelude') or []:
        # earlier simulated runs of the same process (their own verdicts do
        # not matter here, only what they leave behind)
        try:
            eng.execute(pc)
        except Exception:      # noqa
            pass
    res = eng.execute(rp['case'])
    v = res['violation']
    if v is None:
        print('replay %s: no violation on this tree' % path)
        return core.EXIT_OK
    print('VIOLATION property=%s replay=%s' % (prop, path))
    print('  signature=%s' % v['sig'])
    print('  detail=%s' % json.dumps(v, default=repr, sort_keys=True))
    return core.EXIT_VIOLATION


def cmd_setup():
    core.boot()
    import oslo_policy
    import requests
    import yaml
    from oslo_config import cfg
    conf = cfg.ConfigOpts()
    conf(args=[], project='verifsim', default_config_files=[],
         default_config_dirs=[])
    # hermeticity: the relative names the worlds use must not resolve on
    # the real disk through oslo.config's default search path
    for name in ('policy.yaml', 'policy.json', 'custom.yaml', 'ctor.yaml',
                 'policy.d', 'extra.d', 'gone.d', 'late.d'):
        hit = conf.find_file(name)
        if hit:
            raise core.HarnessError(
                'real file %s shadows a simulated name' % hit)
    for p in sorted(ENGINE_OF):
        try:
            engine(p).warm_up()
        except ModuleNotFoundError:
            continue
    print('setup ok: oslo_policy from %s, requests %s, yaml %s'
          % (os.path.dirname(oslo_policy.__file__), requests.__version__,
             yaml.__version__))
    return 0


def main(argv):
    try:
        if not argv:
            print(__doc__)
            return 2
        cmd = argv[0]
        if cmd == 'setup':
            return cmd_setup()
        if cmd == 'check':
            prop = argv[1]
            tier = os.environ.get('VERIF_TIER') or 'quick'
            if '--tier' in argv:
                tier = argv[argv.index('--tier') + 1]
            if tier not in ('quick', 'thorough'):
                tier = 'quick'
            return cmd_check(prop, tier)
        if cmd == 'replay':
            path = argv[argv.index('--replay') + 1] \
                if '--replay' in argv else argv[1]
            return cmd_replay(path)
        if cmd == 'digests':
            return cmd_digests(argv[1], argv[2], int(argv[3]), int(argv[4]))
        if cmd == 'selftest':
            from sim import selftest
            return selftest.main(argv[1:])
        if cmd == 'c12pair':
            from sim import multi_engine
            return multi_engine.pair_main(argv[1])
        if cmd == 'seeded':
            from sim import seeded
            return seeded.main(argv[1:])
        print(__doc__)
        return 2
    except core.HarnessError as e:
        print('HARNESS-ERROR %s' % e)
        return core.EXIT_HARNESS
    except Exception:       # noqa
        traceback.print_exc()
        print('HARNESS-ERROR unexpected exception in the simulator')
        return core.EXIT_HARNESS
