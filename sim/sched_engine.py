"""C20 `sched`: thread schedules over a reload.

An *instance* is a settled enforcer E on SimFS, one or more operator edits
and two or three caller threads, each making a few enforce() calls. A *plan*
(sim/tsched.py) fixes where the edits land and every context switch, at
source-line (or opcode) boundaries inside the library.

Oracle, clause 1 (concurrent decision): every enforce() call made by any
thread returns the decision of a *complete* policy -- that of a freshly
built enforcer on one of the disk states that existed between the start of
the most recent call completed before this one started and this call's own
end (the enforcer's settled pre-run decision counts for state 0). An
exception is neither. Clause 2 (settled state): once all threads have
finished, E decides like a fresh enforcer on the final disk for every probe.
"""
import copy
import random

from sim import core
from sim import rast
from sim import simfs
from sim import simnet
from sim import tsched
from sim import world as W

SCENARIOS = ('S1', 'S2', 'S3', 'S4', 'S5', 'RND', 'S6', 'S7')
PEER_URL = 'http://peer.test/authz'
NCHUNK = 16


def warm_up():
    core.boot()
    simnet.install()
    rng = random.Random('warm-up-c20')
    for sc in SCENARIOS:
        inst = gen_instance(rng, sc)
        pre = prepare(inst)
        run_plan(inst, pre, [['OP'], ['T', 0, 50], ['T', 1, None]])


# ----------------------------------------------------------- generation

def _base_world(rng, defaults, dirs=('policy.d',), new_defaults=None):
    w = {'flavour': 'c20', 't0': rng.choice(W.T0S),
         'fs_seed': '%016x' % rng.getrandbits(64),
         'roles': list(W.ROLE_POOL), 'defaults': defaults,
         'old_names': [], 'file_only': [], 'mkdirs': ['etc'], 'files': {}}
    for d in defaults:
        if d['dep'] and d['dep']['name'] != d['name'] and \
                d['dep']['name'] not in w['old_names']:
            w['old_names'].append(d['dep']['name'])
    w['conf'] = {
        'policy_dirs': list(dirs), 'dirs_via': 'override',
        'enforce_new_defaults': rng.random() < 0.5
        if new_defaults is None else new_defaults,
        'enforce_scope': True, 'via': 'config_dir',
        'debug_logging': rng.random() < 0.25,
        'creds_as_context': False, 'use_authorize': False,
        'pf': {'how': 'untouched', 'value': 'policy.yaml',
               'fallback': True, 'ctor': None}}
    for d in dirs:
        w['mkdirs'].append(W.dir_rel(d))
    return w


def _finish(w, extra_names=()):
    regs = [d['name'] for d in w['defaults']]
    fo = [n for n in extra_names if n not in regs and
          n not in w['old_names']]
    w['file_only'] = fo
    w['universe'] = regs + w['old_names'] + fo
    w['probe_names'] = w['universe'] + [W.NEVER] + \
        (['default'] if 'default' not in w['universe'] else [])
    return w


def _plain(name, a):
    return {'name': name, 'ast': a, 'dep': None, 'scope': None,
            'documented': False, 'removal': False}


def _distinct_roles(rng, n):
    return [['role', r] for r in rng.sample(W.ROLE_POOL, n)]


def _file(rules, rng, fn='x.yaml'):
    return {'rules': rules, 'style': W.style_for(rng, fn)}


def _edit(rng, path, rules, kind=None):
    return {'op': kind or rng.choice(('write', 'replace')), 'path': path,
            'dt': rng.choice(W.DTS), 'rules': rules,
            'style': W.style_for(rng, path)}


def gen_instance(rng, sc):
    """A reload scenario with seeded content."""
    if sc == 'S1':
        # main-file edit while a directory overrides the same name
        m1, m2, dv, dflt = _distinct_roles(rng, 4)
        a = rng.choice(('extra', 'svc:get'))
        defaults = [_plain('svc:get', dflt)]
        if rng.random() < 0.7:
            # a policy that reaches the overridden name through rule:
            # (resolved against the live rule store at evaluation time)
            defaults.append(_plain('svc:list', rng.choice((
                ['rule', a], ['or', [['false'], ['rule', a]]],
                ['not', ['not', ['rule', a]]]))))
        w = _base_world(rng, defaults)
        w['files']['etc/policy.yaml'] = _file({a: m1}, rng)
        w['files']['etc/policy.d/' + rng.choice(W.DIR_FILE_POOL[:4])] = \
            _file({a: dv}, rng)
        _finish(w, [a])
        edits = [_edit(rng, 'etc/policy.yaml', {a: m2})]
    elif sc == 'S2':
        # directory-file edit with an unchanged main file
        m, d1, dflt, other = _distinct_roles(rng, 4)
        a = rng.choice(('extra', 'svc:get'))
        defaults = [_plain('svc:get', dflt)]
        if rng.random() < 0.5:
            defaults.append(_plain('svc:list', ['rule', a]))
        w = _base_world(rng, defaults,
                        dirs=('policy.d', 'extra.d')[:rng.choice((1, 2))])
        w['files']['etc/policy.yaml'] = _file({a: m}, rng)
        fn = 'etc/policy.d/' + rng.choice(W.DIR_FILE_POOL[:4])
        w['files'][fn] = _file({a: d1}, rng)
        _finish(w, [a, 'default'])
        r = rng.random()
        if r < 0.4:
            edits = [{'op': 'touch', 'path': fn, 'dt': rng.choice(W.DTS)}]
        elif r < 0.8:
            edits = [_edit(rng, fn, {a: d1, 'default': other})]
        else:
            edits = [_edit(rng, 'etc/policy.d/zz-new.yaml',
                           {'default': other}, kind='write')]
    elif sc == 'S3':
        # registered defaults and a permissive default rule: a name that
        # exists only as a default is briefly missing and falls through
        x, y = _distinct_roles(rng, 2)
        defaults = [_plain('svc:get', x), _plain('svc:list', y)]
        w = _base_world(rng, defaults, dirs=('policy.d',)
                        if rng.random() < 0.6 else ())
        w['files']['etc/policy.yaml'] = _file({'default': ['true']}, rng)
        _finish(w, ['default'])
        if rng.random() < 0.5:
            edits = [{'op': 'touch', 'path': 'etc/policy.yaml',
                      'dt': rng.choice(W.DTS)}]
        else:
            edits = [_edit(rng, 'etc/policy.yaml',
                           {'default': ['true'], 'extra': y})]
            w['file_only'].append('extra')
            w['universe'].append('extra')
            w['probe_names'].insert(0, 'extra')
    elif sc == 'S4':
        # deprecated default whose old-name override lives in a directory
        n, o, ov, m = _distinct_roles(rng, 4)
        d = _plain('svc:new', n)
        d['dep'] = {'name': 'svc:old', 'ast': o, 'group': 0}
        w = _base_world(rng, [d])
        where = rng.choice(('dir', 'dir', 'main'))
        if where == 'dir':
            w['files']['etc/policy.d/' + rng.choice(
                W.DIR_FILE_POOL[:4])] = _file({'svc:old': ov}, rng)
            w['files']['etc/policy.yaml'] = _file({'extra': m}, rng)
            edits = [_edit(rng, 'etc/policy.yaml', {'extra': ov})]
        else:
            w['files']['etc/policy.yaml'] = _file({'svc:old': ov}, rng)
            w['files']['etc/policy.d/a.yaml'] = _file({'extra': m}, rng)
            edits = [{'op': 'touch', 'path': 'etc/policy.d/a.yaml',
                      'dt': rng.choice(W.DTS)}]
        _finish(w, ['extra'])
    elif sc == 'S7':
        # policy directories only, no main policy file: a directory edit
        # resets the store to empty before directories and defaults return
        x, y, dv = _distinct_roles(rng, 3)
        defaults = [_plain('svc:get', x), _plain('svc:list', y)]
        w = _base_world(rng, defaults,
                        dirs=('policy.d', 'extra.d')[:rng.choice((1, 2))])
        fn = 'etc/policy.d/' + rng.choice(W.DIR_FILE_POOL[:4])
        base = {'extra': dv}
        if rng.random() < 0.6:
            base['default'] = ['true']          # permissive default rule
        w['files'][fn] = _file(base, rng)
        _finish(w, ['extra', 'default'])
        r = rng.random()
        if r < 0.4:
            edits = [{'op': 'touch', 'path': fn, 'dt': rng.choice(W.DTS)}]
        elif r < 0.8:
            edits = [_edit(rng, fn, dict(base, other=x))]
            w['file_only'].append('other')
            w['universe'].append('other')
            w['probe_names'].insert(0, 'other')
        else:
            edits = [_edit(rng, 'etc/policy.d/zz-new.yaml', {'other': x},
                           kind='write')]
            w['file_only'].append('other')
            w['universe'].append('other')
            w['probe_names'].insert(0, 'other')
    elif sc == 'S6':
        # a remote check followed by rule: references: while the decider
        # waits for the peer's answer the file is edited and reloaded
        o1, o2, dflt = _distinct_roles(rng, 3)
        w = _base_world(rng, [_plain('svc:get', dflt)],
                        dirs=('policy.d',) if rng.random() < 0.5 else ())
        http = ['http', PEER_URL]
        tree = rng.choice((['and', [http, ['rule', 'owner']]],
                           ['and', [http, ['not', ['not',
                                                   ['rule', 'owner']]]]],
                           ['or', [['not', http], ['rule', 'owner']]]))
        w['files']['etc/policy.yaml'] = _file(
            {'owner': ['true'], 'res:get': tree}, rng)
        _finish(w, ['owner', 'res:get'])
        edits = [_edit(rng, 'etc/policy.yaml',
                       {'owner': ['false'], 'res:get': ['true']})]
    else:
        w = W.gen_world(rng, 'c20')
        w['conf']['pf'] = {'how': 'untouched', 'value': 'policy.yaml',
                           'fallback': True, 'ctor': None}
        if not w['conf']['policy_dirs']:
            w['conf']['policy_dirs'] = ['policy.d']
            w['mkdirs'].append('etc/policy.d')
        if 'etc/policy.yaml' not in w['files']:
            w['files']['etc/policy.yaml'] = _file(W.gen_mapping(rng, w),
                                                  rng)
        for p in list(w['files']):
            if p.startswith('etc/') and p.count('/') == 1 and \
                    p != 'etc/policy.yaml':
                del w['files'][p]
        edits = [W.gen_edit(rng, w) for _ in
                 range(2 if sc == 'S5' else rng.choice((1, 1, 2)))]
        # an edit that lands while a thread is inside the library must not
        # be a delete: a file vanishing between listdir and open aborts the
        # reload part-way, a window the property does not regulate (same
        # exclusion as C10's racing mode). A delete may come first; plans
        # then apply it before any thread starts.
        for k in range(1, len(edits)):
            while edits[k]['op'] == 'unlink':
                edits[k] = W.gen_edit(rng, w)
    nthreads = 3 if sc == 'S5' or rng.random() < 0.15 else 2
    nprobe = len(W.probes_for(w))
    threads = []
    for t in range(nthreads):
        ncalls = rng.choice((1, 1, 2)) if t else rng.choice((1, 1, 1, 2))
        calls = []
        for _ in range(ncalls):
            c = {'p': rng.randrange(nprobe), 'kind': 'enforce',
                 'do_raise': rng.random() < 0.3}
            if t == 0 and rng.random() < 0.3:
                # the reload may also be driven by a direct load_rules()
                c['kind'] = 'load'
            calls.append(c)
        threads.append({'calls': calls})
    return {'scenario': sc, 'world': w, 'edits': edits, 'threads': threads,
            'opcodes': False,
            # the threads' calls are the first ever made on the enforcer
            'cold': rng.random() < 0.15}


# ------------------------------------------------------------- execution

def prepare(inst):
    """Everything about an instance that does not depend on the plan: the
    decision tables of a fresh enforcer on every disk state, the settled
    enforcer's own table, informative probes."""
    core.boot()
    simnet.install()
    peer = simnet.Peer()
    peer.default = {'fault': None, 'body': b'True', 'status': 200}
    simnet.use(peer)
    ds = W.DiskSim(inst['world'])
    try:
        E0 = ds.make_enforcer()
        te0 = ds.table(E0)
        tables = [ds.table(ds.make_enforcer())]
        for op in inst['edits']:
            ds.apply(op)
            tables.append(ds.table(ds.make_enforcer()))
        probes = ds.probes
    finally:
        ds.close()
        simnet.use(None)
    informative = [i for i in range(len(probes))
                   if len({t[i] for t in tables} | {te0[i]}) == 1]
    return {'tables': tables, 'te0': te0, 'informative': informative,
            'nprobes': len(probes)}


def bias_calls(inst, pre, rng):
    """Point the deciding threads' calls at probes whose settled decision
    is the same under every disk state: any other answer is then a mix."""
    if not pre['informative']:
        return
    for t in inst['threads'][1:]:
        for c in t['calls']:
            if rng.random() < 0.85:
                c['p'] = rng.choice(pre['informative'])
    if rng.random() < 0.5:
        for c in inst['threads'][0]['calls']:
            c['p'] = rng.choice(pre['informative'])
    # a call made with do_raise=True only leaves by exception when the
    # decision is a denial: prefer such probes for the first call of a
    # thread that makes two (state left behind by the exception path)
    denied = [i for i in pre['informative'] if pre['tables'][0][i] is False]
    for t in inst['threads']:
        if len(t['calls']) > 1 and t['calls'][0].get('do_raise') and denied:
            t['calls'][0]['p'] = rng.choice(denied)


def run_plan(inst, pre, plan, recorder=None, digest=None):
    """Execute one schedule. Returns dict(violation, log, steps, calls)."""
    w = inst['world']
    peer = simnet.Peer()
    peer.default = {'fault': None, 'body': b'True', 'status': 200}
    simnet.use(peer)
    ds = W.DiskSim(w)
    viol = None
    try:
        E = ds.make_enforcer()
        if not inst.get('cold'):
            E.load_rules()
            ds.decide(E, ds.probes[0])
        edits = list(inst['edits'])
        applied = [0]
        last_completed_start = [0]
        calls = []        # (thread, probe index, lo, hi, outcome)

        def op_fn():
            if applied[0] >= len(edits):
                return False
            ds.apply(edits[applied[0]])
            applied[0] += 1
            return True

        from oslo_policy import policy as _pol

        def one_call(c):
            if c.get('kind') == 'load':
                try:
                    E.load_rules()
                    return 'loaded'
                except Exception as ex:      # noqa
                    return 'EXC:' + type(ex).__name__
            name, roles, system = ds.probes[c['p']]
            if name.startswith('@tree:'):
                name = W.build_check(w['trees'][int(name[6:])])
            creds = {'roles': list(roles)}
            if system is True:
                creds['system'] = 'all'
            elif system == 'domain':
                creds['domain_id'] = 'd-1'
            try:
                return bool(E.enforce(name, {}, creds,
                                      do_raise=bool(c.get('do_raise'))))
            except (_pol.PolicyNotAuthorized, _pol.InvalidScope):
                return False        # a denial delivered as an exception
            except Exception as ex:      # noqa
                return 'EXC:' + type(ex).__name__

        def mk(t):
            def fn():
                for c in inst['threads'][t]['calls']:
                    start = applied[0]
                    lo = last_completed_start[0]
                    r = one_call(c)
                    calls.append((t, c['p'], lo, applied[0], r,
                                  c.get('kind', 'enforce')))
                    if start > last_completed_start[0]:
                        last_completed_start[0] = start
                    sref[0].yield_point(t)
                return True
            return fn

        sref = [None]
        s = tsched.Sched([mk(t) for t in range(len(inst['threads']))],
                         plan, op_fn=op_fn, opcodes=inst.get('opcodes'),
                         on_switch=None)
        sref[0] = s
        if recorder is not None:
            recorder(s, E)
        peer.on_request = lambda rq: s.net_wait()
        try:
            s.run()
        finally:
            peer.on_request = None
        tables = pre['tables']

        def namekind(pi):
            n = ds.probes[pi][0]
            reg = ds.model.reg
            if n in reg:
                return 'deprecated-default' if reg[n]['dep'] \
                    else 'registered-default'
            if n in w['old_names']:
                return 'old-name'
            if n == W.NEVER:
                return 'undefined-name'
            return 'file-rule'

        if s.deadlock:
            viol = {'sig': 'deadlock', 'prop': 'C20'}
        for t, e in enumerate(s.exc):
            if viol is None and e is not None:
                viol = {'sig': 'worker-raised:' + type(e).__name__,
                        'prop': 'C20', 'thread': t}
        for (t, pi, lo, hi, r, kind) in calls:
            if viol is not None:
                break
            if kind == 'load':
                if r != 'loaded':
                    viol = {'sig': 'exception-during-reload:' + r[4:],
                            'prop': 'C20', 'thread': t, 'call': 'load_rules'}
                continue
            allowed = {tables[k][pi] for k in range(lo, hi + 1)}
            if lo == 0:
                allowed.add(pre['te0'][pi])
            if r not in allowed:
                p = ds.probes[pi]
                if isinstance(r, str):
                    sig = 'exception-during-reload:' + r[4:]
                else:
                    sig = 'mixed-policy:%s:%s' % (
                        namekind(pi), 'escalation' if r else 'denial')
                viol = {'sig': sig, 'prop': 'C20', 'thread': t,
                        'probe': [p[0], list(p[1]), p[2]], 'got': r,
                        'allowed': sorted(map(str, allowed)),
                        'disk_states': [lo, hi]}
        if viol is None and not s.deadlock:
            final = ds.table(E)
            want = tables[applied[0]]
            for pi, (a, b) in enumerate(zip(final, want)):
                if a != b:
                    p = ds.probes[pi]
                    viol = {'sig': 'settled-state-differs:' + namekind(pi),
                            'prop': 'C20',
                            'probe': [p[0], list(p[1]), p[2]],
                            'got': a, 'fresh': b}
                    break
        knobs = {k_: v_ for k_, v_ in ds.counters.items()
                 if k_.startswith('knob:')}
        out = {'violation': viol, 'log': list(s.log), 'steps': list(s.steps),
               'knobs': knobs,
               'calls': calls, 'lock_handovers': s.lock_handovers,
               'net_waits': s.net_waits, 'ops_deferred': s.ops_deferred,
               'ops_applied': applied[0], 'simtime': ds.fs.simtime}
        if digest is not None:
            digest.add('plan', plan, out['log'], calls, viol and viol['sig'])
        return out
    finally:
        ds.close()
        simnet.use(None)


def dry_run(inst, pre):
    """Solo traces: every thread runs alone, in order, after all edits.
    Returns per-thread line counts and landmark positions (line-event
    indices where the enforcer's rule store was just re-bound or resized,
    or where the call depth returned to the outermost library frame)."""
    marks = [[] for _ in inst['threads']]
    post_load = [[] for _ in inst['threads']]
    state = {}
    seen_pos = set()

    def recorder(s, E):
        lib = s.lib
        tests = s.tests
        prev = {}
        depth = {}

        def store():
            r = getattr(E, 'rules', None)
            f = getattr(E, 'file_rules', None)
            try:
                return (id(r), len(r), id(f), len(f) if f is not None else 0)
            except Exception:     # noqa
                return None

        def make(i):
            def local(frame, event, arg):
                if event == 'line':
                    n = s.steps[i]
                    s.steps[i] = n + 1
                    co = frame.f_code
                    seen_pos.add('%s:%s:%d' % (co.co_filename[len(lib):],
                                               co.co_name, frame.f_lineno))
                    st = store()
                    if prev.get(i) is not None and st != prev[i]:
                        marks[i].append(n)
                    prev[i] = st
                    d = depth.get(i, 0)
                    if state.get((i, 'last_depth'), d) > d and d <= 2:
                        marks[i].append(n)
                    state[(i, 'last_depth')] = d
                elif event == 'return':
                    depth[i] = depth.get(i, 1) - 1
                    if frame.f_code.co_name == 'load_rules' and \
                            depth[i] <= 2:
                        # the public load step of this call is over: what
                        # follows is look-up and evaluation
                        post_load[i].append(s.steps[i])
                return local

            def glob(frame, event, arg):
                fn = frame.f_code.co_filename
                if fn.startswith(lib) and not fn.startswith(tests):
                    depth[i] = depth.get(i, 0) + 1
                    return local
                return None
            return glob
        s._tracer_for = make
    plan = [['OP'] for _ in inst['edits']] + \
        [['T', t, None] for t in range(len(inst['threads']))]
    out = run_plan(inst, pre, plan, recorder=recorder)
    return {'steps': out['steps'],
            'marks': [sorted(set(m)) for m in marks],
            'post_load': [sorted(set(m)) for m in post_load],
            'positions': sorted(seen_pos)}


def gen_plan(rng, inst, dry, kind):
    """kind: 'pre' edits land before the threads start; 'mid' the first
    edit lands after a deciding thread has already run part of its call
    (possibly past its own load step)."""
    nt = len(inst['threads'])
    steps = dry['steps']
    marks = dry['marks']

    def point(t):
        n = max(1, steps[t])
        if marks[t] and rng.random() < 0.5:
            return max(0, min(n, rng.choice(marks[t]) +
                              rng.choice((-2, -1, 0, 0, 1, 2))))
        return rng.randrange(0, n + 1)
    plan = []
    ne = len(inst['edits'])
    if inst.get('cold') and rng.random() < 0.6:
        # first-ever calls racing: a decider is stopped a few line events
        # into its call, the other thread starts loading, the decider goes on
        t = rng.randrange(1, nt)
        plan = [['OP'], ['T', t, rng.randint(1, 8)], ['T', 0, point(0)],
                ['T', t, None]]
        return plan + [['OP'] for _ in range(ne - 1)]
    if inst['edits'][0]['op'] == 'unlink':
        kind = 'pre'
    two = [t for t in range(nt) if len(inst['threads'][t]['calls']) > 1]
    if kind == 'pre' and two and rng.random() < 0.5 and \
            inst['edits'][0]['op'] != 'unlink':
        # a thread completes its first call (perhaps leaving by exception)
        # before the edit lands; its next call then drives the reload
        plan.append(['C', rng.choice(two), 1])
        plan.append(['OP'])
        ne -= 1
    elif kind == 'pre':
        plan.append(['OP'])
        ne -= 1
    else:
        t = rng.randrange(1, nt)
        pl = dry.get('post_load', [[]] * nt)[t]
        if pl and rng.random() < 0.6:
            # parked after its own load step, inside look-up/evaluation
            n0 = pl[0]
            plan.append(['T', t, rng.randint(n0, max(n0, min(
                steps[t], n0 + 60)))])
        else:
            plan.append(['T', t, point(t)])
        plan.append(['OP'])
        ne -= 1
    nsw = rng.choice((1, 2, 2, 3, 3, 4))
    order = []
    for _ in range(nsw):
        t = rng.randrange(nt)
        if order and order[-1] == t:
            t = (t + 1) % nt
        order.append(t)
    for t in order:
        plan.append(['T', t, point(t) if rng.random() < 0.8
                     else rng.randint(1, 30)])
        if ne > 0 and rng.random() < 0.5:
            plan.append(['OP'])
            ne -= 1
    for _ in range(ne):
        plan.append(['OP'])
    return plan


MID_OFFSETS = (1, 4, 9, 16, 25, 36, 49, 64)


def sweep_plans(inst, dry, chunk, mid):
    """Plans of the systematic sweep, for this chunk. Plain sweep: the
    edit lands first, the reloading thread (0) is stopped after i line
    events, the deciding thread (1) runs to completion, then everything
    finishes. Mid sweep: the deciding thread first runs through its own
    load step and a few line events into look-up/evaluation, then the edit
    lands, then the reloading thread is stopped after i line events and the
    decider resumes."""
    n = dry['steps'][0]
    if mid == 'cold':
        k = 1 + chunk % 6
        return [[['OP'], ['T', 1, k], ['T', 0, i], ['T', 1, None],
                 ['T', 0, None]] for i in range(chunk, n + 1, NCHUNK)]
    if not mid:
        return [[['OP'], ['T', 0, i], ['T', 1, None], ['T', 0, None]]
                for i in range(chunk, n + 1, NCHUNK)]
    pl = dry['post_load'][1]
    n0 = pl[0] if pl else dry['steps'][1] // 2
    off = MID_OFFSETS[chunk % len(MID_OFFSETS)]
    return [[['T', 1, n0 + off], ['OP'], ['T', 0, i], ['T', 1, None],
             ['T', 0, None]] for i in range(chunk, n + 1, NCHUNK)]


NVARIANTS = 5
SWEEP_SCENARIOS = ('S1', 'S2', 'S3', 'S4', 'S7')


def sweep_variant(i):
    v = (i // (NCHUNK * len(SWEEP_SCENARIOS))) % NVARIANTS
    if v == 4:
        return {'direct_load': False, 'mid': 'cold'}
    return {'direct_load': bool(v & 1), 'mid': bool(v & 2)}


def instance_for(base, i, mode):
    if mode == 'sweep':
        sc = SWEEP_SCENARIOS[(i // NCHUNK) % len(SWEEP_SCENARIOS)]
        inst_no = i // (NCHUNK * len(SWEEP_SCENARIOS) * NVARIANTS)
        rng = core.rng_for(base, 'C20', '%s:%d' % (sc, inst_no), 'sweep')
        inst = gen_instance(rng, sc)
        inst['threads'] = inst['threads'][:2]
        var = sweep_variant(i)
        r0 = inst['threads'][0]['calls'][0]
        inst['threads'][0]['calls'] = [
            {'p': r0['p'], 'do_raise': False,
             'kind': 'load' if var['direct_load'] else 'enforce'}]
        inst['threads'][1]['calls'] = inst['threads'][1]['calls'][:1]
        inst['edits'] = inst['edits'][:1]
        inst['cold'] = var['mid'] == 'cold'
        return inst, rng
    rng = core.rng_for(base, 'C20', i, mode)
    sc = SCENARIOS[i % len(SCENARIOS)]
    inst = gen_instance(rng, sc)
    if mode == 'opcode':
        inst['opcodes'] = True
    return inst, rng


PLANS_PER_INSTANCE = 24


def run_one(base, i, prop=None, mode='random'):
    inst, rng = instance_for(base, i, mode)
    pre = prepare(inst)
    bias_calls(inst, pre, rng)
    dry = dry_run(inst, pre)
    dg = core.Digest()
    cnt = core.Counter()
    positions = set()
    if mode == 'sweep':
        var = sweep_variant(i)
        plans = sweep_plans(inst, dry, i % NCHUNK, var['mid'])
        cnt.hit('sweep_points_total', dry['steps'][0] + 1
                if i % NCHUNK == 0 else 0)
        cnt.hit('sweep:%s%s' % (var['mid'] if isinstance(var['mid'], str)
                                else 'mid' if var['mid'] else 'pre',
                                '+direct-load' if var['direct_load']
                                else ''), len(plans))
    else:
        if mode == 'opcode':
            # opcode events are ~5x denser than lines: scale the dry-run
            # line counts (landmarks stay approximate)
            dry = {'steps': [x * 5 for x in dry['steps']],
                   'marks': [[m * 5 for m in ms] for ms in dry['marks']],
                   'post_load': [[m * 5 for m in ms]
                                 for ms in dry['post_load']],
                   'positions': dry['positions']}
        plans = [gen_plan(rng, inst, dry,
                          'pre' if rng.random() < 0.55 else 'mid')
                 for _ in range(PLANS_PER_INSTANCE)]
    viol = None
    vplan = None
    simtime = 0.0
    for plan in plans:
        out = run_plan(inst, pre, plan, digest=dg)
        cnt.hit('plans')
        cnt.hit('scenario:' + inst['scenario'])
        simtime += out['simtime']
        nsw = 0
        for (who, st, why, pos) in out['log']:
            if why == 'plan' and pos is not None:
                positions.add('%s:%s:%s' % pos)
                nsw += 1
        cnt.hit('context_switches', nsw)
        cnt.hit('switches_%d' % min(nsw, 5))
        cnt.merge(out['knobs'])
        cnt.hit('edits_deferred_past_a_load_step', out['ops_deferred'])
        cnt.hit('fault:lock_handover', out['lock_handovers'])
        cnt.hit('fault:switch_while_waiting_for_peer', out['net_waits'])
        if inst.get('cold'):
            cnt.hit('probe:first_ever_calls_race')
        cnt.hit('fault:edit_during_threads', max(0, out['ops_applied'] - (
            1 if plan and plan[0] == ['OP'] else 0)))
        cnt.hit('fault:preemption_inside_library', nsw)
        cnt.hit('decisions_judged', len(out['calls']))
        if any(c[5] == 'load' for c in out['calls']):
            cnt.hit('probe:reload_driven_by_direct_load_rules')
        if any(sg[0] == 'C' for sg in plan):
            cnt.hit('probe:call_completed_before_edit')
        if any(c[0] != 0 and c[1] in pre['informative']
               for c in out['calls']):
            cnt.hit('probe:decision_on_informative_probe')
        if out['violation'] is not None and viol is None:
            viol = out['violation']
            vplan = plan
            break
    cnt.hit('line_events_in_reload', dry['steps'][0])
    if viol is not None:
        viol['plan'] = vplan
    states = ['used ' + p for p in positions] + \
        ['seen ' + p for p in dry.get('positions', [])]
    return {'index': i, 'digest': dg.hex(), 'violation': viol,
            'counters': dict(cnt), 'states': sorted(states),
            'simtime': simtime, 'events': dg.n,
            'nontrivial': cnt.get('context_switches', 0) > 0}


# ------------------------------------------------------ engine interface

PROPS = ('C20',)
TIERS = {'C20': {
    'quick': [('sweep', NCHUNK * 5 * NVARIANTS), ('random', 720)],
    'thorough': [('sweep', NCHUNK * 5 * NVARIANTS * 12), ('random', 80000)]}}
# An opcode-granularity mode exists (mode 'opcode': f_trace_opcodes, plans
# scaled from the line-level dry run) but is not part of the registered tiers:
# CPython 3.12 instruments a code object for opcode events lazily, so the
# event count of a code object's first traced execution in a process differs
# from later ones and such runs do not replay exactly (the thorough tier's
# determinism self-test reported it). The property is stated for source-line
# boundaries, which the registered tiers cover.


def make_case(base, prop, i, mode):
    """The replayable case of run i: instance + the first violating plan
    (or, when nothing fails, the first plan)."""
    inst, rng = instance_for(base, i, mode)
    pre = prepare(inst)
    bias_calls(inst, pre, rng)
    r = run_one(base, i, prop=prop, mode=mode)
    plan = r['violation']['plan'] if r['violation'] else \
        [['OP'], ['T', 0, 10], ['T', 1, None]]
    return {'prop': 'C20', 'instance': inst, 'plan': plan}


def execute(case, backend='sim', record=False):
    core.boot()
    inst = case['instance']
    pre = prepare(inst)
    dg = core.Digest()
    out = run_plan(inst, pre, case['plan'], digest=dg)
    return {'violation': out['violation'], 'digest': dg.hex(),
            'counters': {}, 'states': [], 'simtime': out['simtime'],
            'events': dg.n, 'observations': [], 'log': out['log']}


def case_size(case):
    return len(case['plan']) + sum(
        (s[2] or 0) for s in case['plan'] if s[0] == 'T') // 50


def shrink(case, sig, budget=250):
    calls = [0]

    def fails(c):
        calls[0] += 1
        try:
            v = execute(c)['violation']
        except core.HarnessError:
            return False
        return v is not None and v['sig'] == sig

    case = copy.deepcopy(case)
    # drop segments
    plan = core.ddmin(case['plan'],
                      lambda p: fails(dict(case, plan=p)), budget=80)
    case['plan'] = plan
    # fewer calls per thread
    for t in case['instance']['threads']:
        while len(t['calls']) > 1 and calls[0] < budget:
            saved = list(t['calls'])
            t['calls'] = saved[:-1]
            if not fails(case):
                t['calls'] = saved
                break
    # binary-search each segment length down
    for s in case['plan']:
        if s[0] != 'T' or s[2] is None:
            continue
        lo, hi = 0, s[2]
        while lo < hi and calls[0] < budget:
            mid = (lo + hi) // 2
            old = s[2]
            s[2] = mid
            if fails(case):
                hi = mid
            else:
                s[2] = old
                lo = mid + 1
        s[2] = hi
    # drop initial files nobody needs
    w = case['instance']['world']
    for rel in sorted(w['files']):
        saved = w['files'].pop(rel)
        if not (calls[0] < budget and fails(case)):
            w['files'][rel] = saved
    return case, calls[0]


def sample_repr(case):
    inst = case['instance']
    w = inst['world']
    probes = W.probes_for(w)
    return {
        'scenario': inst['scenario'],
        'defaults': [{'name': d['name'], 'check': rast.show(d['ast']),
                      'deprecated': d['dep'] and {
                          'name': d['dep']['name'],
                          'check': rast.show(d['dep']['ast'])}}
                     for d in w['defaults']],
        'enforce_new_defaults': w['conf']['enforce_new_defaults'],
        'policy_dirs': w['conf']['policy_dirs'],
        'initial_files': {p: {n: rast.show(a) for n, a in
                              f['rules'].items()}
                          for p, f in sorted(w['files'].items())},
        'edits': [{k: (v if k != 'rules' else
                       {n: rast.show(a) for n, a in v.items()})
                   for k, v in op.items() if k != 'style'}
                  for op in inst['edits']],
        'threads': [[{'call': c.get('kind', 'enforce'),
                      'probe': list(probes[c['p']][:2]),
                      'do_raise': bool(c.get('do_raise'))}
                     for c in t['calls']] for t in inst['threads']],
        'plan': case['plan'],
        'granularity': 'opcode' if inst.get('opcodes') else 'source line',
    }


META = {'C20': {
    'level': 'exploration',
    'technique': 'deterministic simulation of thread schedules: real '
                 'threads run one at a time under a seeded plan with '
                 'pre-emption at library source-line '
                 'boundaries, cooperative locks, operator edits placed in '
                 'the schedule; oracle: every decision equals a complete '
                 'old or new policy, and the settled store equals a fresh '
                 'enforcer',
    'rule': 'one case = one scenario instance (S1 main-file edit under a '
            'directory override, S2 directory edit, S3 default-only names '
            'with a permissive default rule, S4 deprecated default with an '
            'old-name override, S5 two edits and three threads, RND generic '
            'world) with its batch of plans. sweep mode: the complete set of '
            'single-switch plans (reloading thread stopped after each of '
            'its line events, deciding thread run to completion) split over '
            '16 chunks per scenario; random mode: 24 plans per instance '
            'with 1-4 switches, half of the switch points biased to '
            'structural landmarks of a solo dry run, edits landing before '
            'the threads start or in the middle of a deciding call. '
            'evaluations counts instances (batches); coverage.plans counts '
            'schedules executed. Distinct = distinct event-log digest; '
            'non-trivial = at least one pre-emption inside library code.',
    'states_measure': 'distinct pre-emption positions (module, function, '
                      'line) at which a context switch was taken',
}}
ASSUMPTIONS = [
    'pre-emption granularity is the source line inside /repo/oslo_policy '
    '; frames of other libraries '
    'are atomic',
    'locks created by library code through threading.Lock/RLock are made '
    'cooperative; other blocking primitives would surface as a harness hang',
    'the enforcer is settled (one load + one decision) before the threads '
    'start; the fresh-enforcer tables per disk state are computed '
    'single-threaded',
]
COMPONENTS = {
    'real': ['oslo_policy', 'oslo.config', 'PyYAML/json', 'real threads'],
    'stub': ['choice of which thread runs (baton-passing scheduler)',
             'locks taken by library code (cooperative)', 'disk (SimFS)',
             'operator edits'],
}
EXPECTED_PROBES = {'C20': ['decision_on_informative_probe',
                           'preemption_inside_library',
                           'edit_during_threads',
                           'reload_driven_by_direct_load_rules',
                           'call_completed_before_edit',
                           'switch_while_waiting_for_peer',
                           'first_ever_calls_race']}


def summarise_states(states):
    used = {s[5:] for s in states if s.startswith('used ')}
    seen = {s[5:] for s in states if s.startswith('seen ')}
    return {'distinct_states': len(used),
            'preemption_positions_used': len(used),
            'library_line_positions_executed_by_the_threads': len(seen),
            'fraction_of_executed_line_positions_preempted':
                round(len(used & seen) / max(1, len(seen)), 3),
            'positions_never_preempted': sorted(seen - used)[:60]}


def extra_coverage(prop, counters):
    return {
        'plans': counters.get('plans', 0),
        'context_switches': counters.get('context_switches', 0),
        'plans_by_switch_count': {k[9:]: v for k, v in counters.items()
                                  if k.startswith('switches_')},
        'plans_by_scenario': {k[9:]: v for k, v in counters.items()
                              if k.startswith('scenario:')},
        'decisions_judged': counters.get('decisions_judged', 0),
        'single_switch_sweep_points': counters.get('sweep_points_total', 0),
        'sweep_plans_by_variant': {k[6:]: v for k, v in counters.items()
                                   if k.startswith('sweep:')},
        'lock_handovers': counters.get('fault:lock_handover', 0),
    }

CHUNK = 1
DET_K = {'quick': 12, 'thorough': 96}
