"""Shared plumbing of the simulator: bootstrap, seeded PRNGs, the parallel
run driver, evidence and replay files, known findings, delta debugging.

Nothing in here draws from a run's PRNG or reads a real clock on behalf of a
run; wall time is read only for throughput figures in the evidence.
"""
import hashlib
import json
import os
import random
import sys
import time

VERIF = os.path.dirname(os.path.dirname(os.path.abspath(__file__)))
REPO = os.environ.get('VERIF_REPO', '/repo')
# where evidence/ and replays/ are written (the selftest redirects it)
OUT = os.environ.get('VERIF_OUT') or VERIF
LIB = os.path.join(os.path.realpath(REPO), 'oslo_policy') + os.sep
DEFAULT_SEED = 20261001

EXIT_OK, EXIT_VIOLATION, EXIT_HARNESS = 0, 1, 2


class HarnessError(Exception):
    """The simulator, not the library, misbehaved (exit 2, never exit 0/1)."""


_booted = False


def boot():
    """Make the interpreter hermetic and import the library from REPO.

    Order matters: the cooperative lock factories must be in place before
    oslo_policy is imported so that a lock created by library code is one the
    scheduler can see (sim/tsched.py); proxies/netrc are cleared so requests
    is hermetic; logging and warnings are silenced so no library __str__ runs
    under a logging handler lock.
    """
    global _booted
    if _booted:
        return
    _booted = True
    for k in ('http_proxy', 'https_proxy', 'HTTP_PROXY', 'HTTPS_PROXY',
              'no_proxy', 'NO_PROXY', 'all_proxy', 'ALL_PROXY',
              'REQUESTS_CA_BUNDLE', 'CURL_CA_BUNDLE', 'NETRC'):
        os.environ.pop(k, None)
    os.environ['NO_PROXY'] = '*'
    if sys.path[0] != os.path.realpath(REPO):
        sys.path.insert(0, os.path.realpath(REPO))
    from sim import tsched
    tsched.install_locks()
    from sim import simfs
    simfs.install()
    import logging
    import warnings
    logging.disable(logging.CRITICAL)
    warnings.simplefilter('ignore')
    import oslo_policy
    got = os.path.realpath(os.path.dirname(oslo_policy.__file__)) + os.sep
    if got != LIB:
        raise HarnessError('oslo_policy imported from %s, expected %s'
                           % (got, LIB))
    # keep warnings quiet even if a library import re-enabled them
    warnings.simplefilter('ignore')
    _register_custom_check()


def _register_custom_check():
    """A service-defined check class, registered through the public
    policy.register(): 'simflag:<f>' holds when the credentials carry the
    pseudo-role 'flag:<f>'. Its __call__ takes three arguments (no
    current_rule), the older of the two signatures the library supports."""
    from oslo_policy import policy

    @policy.register('simflag')
    class SimFlagCheck(policy.Check):
        def __call__(self, target, creds, enforcer):
            return ('flag:' + self.match) in (creds.get('roles') or [])


def base_seed():
    v = os.environ.get('VERIF_SEED')
    try:
        return int(v) if v not in (None, '') else DEFAULT_SEED
    except ValueError:
        return int(hashlib.sha256(v.encode()).hexdigest()[:12], 16)


def rng_for(base, prop, index, stream='main'):
    # str seeding goes through SHA-512: independent of PYTHONHASHSEED
    return random.Random('%s:%s:%s:%s' % (base, prop, index, stream))


class Digest:
    """Running SHA-256 over the event log of one run."""

    __slots__ = ('h', 'n')

    def __init__(self):
        self.h = hashlib.sha256()
        self.n = 0

    def add(self, *event):
        self.n += 1
        self.h.update(repr(event).encode('utf-8', 'backslashreplace'))
        self.h.update(b'\n')

    def hex(self):
        return self.h.hexdigest()


class Counter(dict):
    def hit(self, key, n=1):
        self[key] = self.get(key, 0) + n

    def merge(self, other):
        for k, v in other.items():
            self[k] = self.get(k, 0) + v


# ---------------------------------------------------------------- parallel

def _worker(args):
    fn_mod, fn_name, base, lo, hi, extra = args
    import faulthandler
    faulthandler.dump_traceback_later(900, exit=True)
    try:
        boot()
        mod = __import__(fn_mod, fromlist=[fn_name])
        fn = getattr(mod, fn_name)
        warm = getattr(mod, 'warm_up', None)
        if warm:
            warm()
        out = []
        for i in range(lo, hi):
            try:
                out.append(fn(base, i, **extra))
            except HarnessError:
                raise
            except Exception:     # noqa - reported per run, see cli
                import traceback
                out.append({'index': i, 'crash': traceback.format_exc()})
        return out
    finally:
        faulthandler.cancel_dump_traceback_later()


def run_many(fn_mod, fn_name, base, n, extra=None, workers=None, chunk=None,
             wall_cap=None, stop_on=None):
    """Run fn(base, i, **extra) for i in range(n) over forked workers.

    Results come back indexed by i, so they do not depend on the worker
    count. Returns (results_list, capped) where capped is True when the
    wall-clock safety net cut the batch short (reported, never hidden).
    stop_on(result) -> True lets the driver stop scheduling new chunks once
    enough violations are in hand.
    """
    import concurrent.futures as cf
    import multiprocessing as mp
    extra = extra or {}
    workers = workers or int(os.environ.get('VERIF_WORKERS', '0')) or \
        min(16, os.cpu_count() or 1)
    if chunk is None:
        chunk = max(1, min(200, n // (workers * 4) or 1))
    jobs = [(fn_mod, fn_name, base, lo, min(n, lo + chunk), extra)
            for lo in range(0, n, chunk)]
    results = {}
    capped = False
    t0 = time.time()
    if workers == 1:
        for j in jobs:
            for r in _worker(j):
                results[r['index']] = r
            if wall_cap and time.time() - t0 > wall_cap:
                capped = True
                break
        return [results[i] for i in sorted(results)], capped
    ctx = mp.get_context('fork')
    stop = False
    with cf.ProcessPoolExecutor(max_workers=workers, mp_context=ctx) as ex:
        pending = set()
        it = iter(jobs)
        try:
            while True:
                while not stop and len(pending) < workers * 2:
                    j = next(it, None)
                    if j is None:
                        break
                    pending.add(ex.submit(_worker, j))
                if not pending:
                    break
                done, pending = cf.wait(pending, timeout=1200,
                                        return_when=cf.FIRST_COMPLETED)
                if not done:
                    raise HarnessError('worker made no progress in 1200 s')
                for f in done:
                    for r in f.result():
                        results[r['index']] = r
                        if stop_on and stop_on(r):
                            stop = True
                if wall_cap and time.time() - t0 > wall_cap:
                    capped = True
                    stop = True
        except cf.process.BrokenProcessPool as e:
            raise HarnessError('worker process died: %s' % e)
    return [results[i] for i in sorted(results)], capped


# ---------------------------------------------------------------- files

def write_json(path, obj):
    os.makedirs(os.path.dirname(path), exist_ok=True)
    tmp = path + '.tmp.%d' % os.getpid()
    with open(tmp, 'w') as f:
        json.dump(obj, f, indent=1, sort_keys=True, default=repr)
        f.write('\n')
    os.replace(tmp, path)


def replay_path(prop, tag):
    d = os.path.join(OUT, 'replays')
    os.makedirs(d, exist_ok=True)
    return os.path.join(d, '%s_%s.json' % (prop, tag))


def write_evidence(prop, tier, seed, level, coverage, wall_s, violations,
                   assumptions, extra=None):
    ev = {
        'property_id': prop, 'tier': tier, 'seed': int(seed), 'level': level,
        'coverage': coverage, 'wall_s': round(float(wall_s), 3),
        'violations': int(violations), 'assumptions': list(assumptions),
    }
    if extra:
        ev.update(extra)
    write_json(os.path.join(OUT, 'evidence', prop + '.json'), ev)
    return ev


# ---------------------------------------------------------- known findings

def load_known():
    """KNOWN_FINDINGS.txt: 'known: property=<ID> sig=<sig> <text>' lines
    suppress exactly that signature; 'fixed: ...' lines suppress nothing."""
    known = {}
    path = os.path.join(VERIF, 'KNOWN_FINDINGS.txt')
    if not os.path.exists(path):
        return known
    for line in open(path):
        line = line.strip()
        if not line.startswith('known:'):
            continue
        parts = line.split()
        prop = sig = None
        for p in parts[1:3]:
            if p.startswith('property='):
                prop = p[len('property='):]
            elif p.startswith('sig='):
                sig = p[len('sig='):]
        if prop and sig:
            known[(prop, sig)] = ' '.join(parts[3:])
    return known


# ------------------------------------------------------------------ ddmin

def ddmin(items, fails, budget=400):
    """Classic delta debugging on a list; fails(list) -> truthy when the
    same violation class persists. Returns a 1-minimal (within budget) list.
    """
    items = list(items)
    n = 2
    calls = 0
    while len(items) >= 1 and calls < budget:
        size = max(1, len(items) // n)
        chunks = [items[i:i + size] for i in range(0, len(items), size)]
        reduced = False
        for i in range(len(chunks)):
            cand = [x for j, c in enumerate(chunks) if j != i for x in c]
            calls += 1
            if fails(cand):
                items = cand
                n = max(n - 1, 2)
                reduced = True
                break
            if calls >= budget:
                break
        if not reduced:
            if size == 1:
                break
            n = min(len(items), n * 2)
    return items
