"""SimNet: the remote-peer seam.

requests.adapters.HTTPAdapter.send is replaced by an in-process peer with a
scripted behaviour per URL. Everything above the adapter is real `requests`
code (PreparedRequest, body encoding, settings merge, Response.text);
everything below it (urllib3, sockets, TLS) is this stub.

The peer honours the timeout the caller actually passed: a scripted latency
above it raises the matching requests timeout and advances the simulated
clock by the timeout; otherwise the clock advances by the latency and the
scripted reply is returned. With no timeout at all a stalled peer can only
be modelled as a hang (SimStall), which the engine reports.
"""
import io
import os

_PEER = [None]


class SimStall(BaseException):
    """The call would block forever (stalled peer, no timeout passed)."""


class Peer:
    lenient = False          # True: the transport does not validate TLS files

    on_request = None        # callback(request) before the peer answers
    default = None           # behaviour for URLs without a script entry

    def __init__(self):
        self.script = {}     # normalised url -> behaviour dict
        self.requests = []
        self.clock = 0.0
        self.faults_fired = {}

    def fired(self, k):
        self.faults_fired[k] = self.faults_fired.get(k, 0) + 1


def use(peer):
    _PEER[0] = peer


def _split_timeout(timeout):
    if isinstance(timeout, tuple):
        return timeout[0], timeout[1]
    return timeout, timeout


def _fake_send(self, request, stream=False, timeout=None, verify=True,
               cert=None, proxies=None):
    import requests
    from requests import exceptions as rex
    peer = _PEER[0]
    if peer is None:
        raise rex.ConnectionError('SimNet: no peer active (sandbox is '
                                  'offline)')
    peer.requests.append({
        'method': request.method, 'url': request.url,
        'headers': dict(request.headers), 'body': request.body,
        'timeout': timeout, 'verify': verify, 'cert': cert})
    if peer.on_request is not None:
        # the reply is an event: the simulator may run other actors first
        peer.on_request(request)
    beh = peer.script.get(request.url, peer.default)
    if beh is None:
        peer.fired('unknown_url')
        raise rex.ConnectionError('SimNet: no such host for %s'
                                  % request.url)
    # what the real adapter does before connecting (cert_verify)
    if request.url.lower().startswith('https') and not peer.lenient:
        if isinstance(verify, str) and not os.path.exists(verify):
            peer.fired('tls_ca_missing_at_adapter')
            raise OSError('Could not find a suitable TLS CA certificate '
                          'bundle, invalid path: %s' % verify)
        if cert:
            crt, key = cert if isinstance(cert, tuple) else (cert, None)
            for what, p in (('certificate', crt), ('key', key)):
                if p and not os.path.exists(p):
                    peer.fired('tls_file_missing_at_adapter')
                    raise OSError('Could not find the TLS %s file, '
                                  'invalid path: %s' % (what, p))
                if p and not os.access(p, os.R_OK):
                    peer.fired('tls_file_unreadable_at_adapter')
                    raise rex.SSLError('cannot load %s %s' % (what, p))
    fault = beh.get('fault')
    if fault:
        peer.fired(fault)
        cls = {'ConnectTimeout': rex.ConnectTimeout,
               'ReadTimeout': rex.ReadTimeout,
               'ConnectionError': rex.ConnectionError,
               'SSLError': rex.SSLError,
               'ChunkedEncodingError': rex.ChunkedEncodingError}[fault]
        raise cls('SimNet injected %s' % fault)
    cto, rto = _split_timeout(timeout)
    cl = beh.get('connect_latency', 0.0)
    rl = beh.get('latency', 0.0)
    if cl == 'stall' or (cto is not None and cl > cto):
        if cto is None:
            peer.fired('stall_without_timeout')
            raise SimStall()
        peer.clock += cto
        peer.fired('slow_connect_timeout')
        raise rex.ConnectTimeout('SimNet: connect timed out after %s' % cto)
    peer.clock += cl
    if rl == 'stall' or (rto is not None and rl > rto):
        if rto is None:
            peer.fired('stall_without_timeout')
            raise SimStall()
        peer.clock += rto
        peer.fired('slow_read_timeout')
        raise rex.ReadTimeout('SimNet: read timed out after %s' % rto)
    peer.clock += rl
    body = beh['body']
    r = requests.Response()
    r.status_code = beh.get('status', 200)
    r.headers = requests.structures.CaseInsensitiveDict(
        beh.get('headers') or {})
    r._content = body
    r._content_consumed = True
    r.raw = io.BytesIO(body)
    r.url = request.url
    r.request = request
    r.reason = 'SIM'
    r.encoding = requests.utils.get_encoding_from_headers(r.headers)
    peer.fired('reply')
    return r


_installed = False


def install():
    global _installed
    if _installed:
        return
    _installed = True
    import requests.adapters
    requests.adapters.HTTPAdapter.send = _fake_send
