"""Sensitivity self-test: apply each small breaking patch of the catalogue
to a scratch copy of the library (outside /repo and /verif, removed
afterwards) and require the named check(s) to report a violation within
the quick budget; the unpatched copy must be clean.

  run.py selftest                 all mutants
  run.py selftest C10             mutants aimed at one property
  run.py selftest m-id [m-id ..]  chosen mutants
  run.py selftest --clean         only the unpatched-copy runs

Development tool; not part of the registered commands.
"""
import json
import os
import shutil
import subprocess
import sys
import tempfile
import time

from sim import core
from sim.mutants import MUTANTS


def scratch_copy():
    d = tempfile.mkdtemp(prefix='verif_mut_')
    shutil.copytree(os.path.join('/repo', 'oslo_policy'),
                    os.path.join(d, 'oslo_policy'),
                    ignore=shutil.ignore_patterns('tests', '__pycache__'))
    return d


def apply(d, m):
    edits = m.get('edits') or [(m['file'], m['old'], m['new'])]
    for fn, old, new in edits:
        p = os.path.join(d, 'oslo_policy', fn)
        s = open(p).read()
        if s.count(old) != 1:
            raise core.HarnessError(
                'mutant %s: pattern occurs %d times in %s'
                % (m['id'], s.count(old), fn))
        open(p, 'w').write(s.replace(old, new))
        subprocess.run([sys.executable, '-m', 'py_compile', p], check=True)


def run_check(d, prop, scale, tier='quick'):
    env = dict(os.environ)
    env.update(VERIF_REPO=d, VERIF_OUT=os.path.join(d, 'out'),
               VERIF_SCALE=str(scale), PYTHONDONTWRITEBYTECODE='1')
    t = time.time()
    out = subprocess.run(
        [sys.executable, os.path.join(core.VERIF, 'sim', 'run.py'),
         'check', prop, '--tier', tier],
        env=env, capture_output=True, text=True, timeout=3600)
    return out.returncode, out.stdout + out.stderr[-1500:], time.time() - t


def main(argv):
    scale = float(os.environ.get('VERIF_SELFTEST_SCALE', '0.5'))
    only_clean = '--clean' in argv
    argv = [a for a in argv if not a.startswith('--')]
    props = [a for a in argv if a[0] == 'C' and a[1:].isdigit()]
    ids = [a for a in argv if a not in props]
    todo = [m for m in MUTANTS
            if (not props and not ids) or m['id'] in ids or
            set(m['props']) & set(props)]
    ok = True
    summary = []
    clean_props = props or sorted({p for m in todo for p in m['props']})
    d = scratch_copy()
    try:
        for p in clean_props:
            rc, out, dt = run_check(d, p, scale)
            line = 'clean copy  %-4s exit=%d %.0fs' % (p, rc, dt)
            print(line, flush=True)
            if rc != 0:
                ok = False
                print(out[-3000:])
            summary.append(line)
    finally:
        shutil.rmtree(d, ignore_errors=True)
    if only_clean:
        return 0 if ok else 1
    for m in todo:
        d = scratch_copy()
        try:
            apply(d, m)
            for p in m['props']:
                if props and p not in props:
                    continue
                rc, out, dt = run_check(d, p, scale)
                caught = rc == 1 and ('VIOLATION property=%s' % p) in out
                sig = ''
                for ln in out.splitlines():
                    if ln.strip().startswith('signature='):
                        sig = ln.strip()
                        break
                line = '%-34s %-4s %s exit=%d %.0fs %s' % (
                    m['id'], p, 'CAUGHT' if caught else 'MISSED', rc, dt,
                    sig)
                print(line, flush=True)
                summary.append(line)
                if not caught and not m.get('may_be_equivalent'):
                    ok = False
                    print(out[-1500:])
        finally:
            shutil.rmtree(d, ignore_errors=True)
    print(json.dumps({'ok': ok, 'n': len(summary)}))
    return 0 if ok else 1
