#!/bin/bash
# Runs every registered quick check on /repo (default seed -> evidence in /verif/evidence),
# then again under other seeds into a scratch output dir; prints one line per run and
# exits non-zero if any run did not exit 0.
cd /verif
bad=0
for p in C09 C10 C11 C12 C16 C20; do
  out=$(timeout 3000 /venv/bin/python sim/run.py check $p 2>&1); rc=$?
  echo "$p seed=default exit=$rc $(echo "$out" | grep -E "quick:" | tail -1)"
  [ $rc -ne 0 ] && { bad=1; echo "$out" | grep -E "VIOLATION|signature|HARNESS" | head -5; }
done
for s in ${EXTRA_SEEDS:-1}; do
  for p in C09 C10 C11 C12 C16 C20; do
    out=$(VERIF_SEED=$s VERIF_OUT=/tmp/verif_pc_$s timeout 3000 /venv/bin/python sim/run.py check $p 2>&1); rc=$?
    echo "$p seed=$s exit=$rc $(echo "$out" | grep -E "quick:" | tail -1)"
    [ $rc -ne 0 ] && { bad=1; echo "$out" | grep -E "VIOLATION|signature|HARNESS" | head -5; }
  done
  [ $bad -eq 0 ] && rm -rf /tmp/verif_pc_$s
done
rm -rf /verif/replays/* 2>/dev/null
[ $bad -eq 0 ] && echo "ALL CLEAN" || echo "PROBLEMS"
exit $bad
