#!/venv/bin/python
"""Regenerate DESIGN.md section 9 from a `run.py seeded` log.

  tools/gen_section9.py logs/seeded_quick_final.txt
"""
import json
import os
import re
import sys

sys.path.insert(0, '/verif')
from sim import mutants  # noqa

LOG = sys.argv[1]
rows = {}
for ln in open(LOG):
    m = re.match(r'(\S+)\s+(C\d+)\s+(CAUGHT|missed) exit=(\d) \d+s '
                 r'(?:(\d+)/(\d+) runs violate )?(?:signature=(\S+))?', ln)
    if m:
        # a later line for the same (change, check) replaces the earlier one
        lst = rows.setdefault(m.group(1), [])
        lst[:] = [x for x in lst if x[0] != m.group(2)]
        lst.append((m.group(2), m.group(3), m.group(5), m.group(6),
                    m.group(7)))

ids = sorted(x for x in os.listdir('/verif/seeded')
             if os.path.isdir('/verif/seeded/' + x))
n_known_miss = 0
out = ['''
## 9. Which checks catch which changes

### 9.1 Independent changes (sub-agents)

Sub-agents, one per claimed property and round (ten rounds), each received only the text
of one property (statement, quantifier, anchors) and a private scratch git
worktree of /repo - nothing from /verif - and wrote two changes each that
break the property while the library still imports and the existing suite
still passes, with a demonstration program. From round 2 on they were also
told which ideas earlier rounds had used, so that every round had to find new
code sites and triggers. Every change was confirmed with `tools/harvest.sh`
(demo passes on the unchanged tree and fails with the change; suite with the
change: 345 passed + the one root-permission failure of the unchanged tree)
and is kept under `/verif/seeded/<id>/` (patch.diff, demo.py, notes.md,
meta.json). %d changes are kept.

The table is the output of `run.py seeded` on the final code (quick tier,
default seed, one scratch worktree per change; log in `%s`): check,
violating runs / runs executed before the early stop, first signature. The
column "breaks" is the property the author aimed at; "caught by" lists the
checks named in the change's meta.json (a staleness bug filed under C09, C12
or C20 by its author is often a C10 violation in fact - a fresh enforcer is
unaffected, a long-lived one is stale - and is then reported by C10).

| change | breaks | what it needs to manifest | caught by |
|---|---|---|---|''' % (len(ids), LOG.replace('/verif/', ''))]
for sid in ids:
    meta = json.load(open('/verif/seeded/%s/meta.json' % sid))
    needs = meta['needs_to_manifest'].split(';')[0][:140].replace('|', '/')
    if meta.get('known_miss'):
        n_known_miss += 1
        caught = '**not caught** (outside the quantifier, see below)'
    elif sid in rows:
        caught = '; '.join(
            '%s %s/%s `%s`' % (c, a, b, sig) if st == 'CAUGHT'
            else '%s **missed**' % c for c, st, a, b, sig in rows[sid])
    else:
        caught = '(not in this log)'
    out.append('| %s | %s | %s | %s |' % (sid, meta['property'], needs,
                                          caught))

out.append('''
#### What was missed at first, round by round, and what was strengthened

Each round's changes were first run against the checks as they stood
(baseline logs of rounds 5 and 6 are kept in `logs/`), then the generators
and oracles were extended until every in-scope change was reported, then the
unchanged tree was re-checked on several seeds (tools/precommit.sh).

* **Round 1** (12 changes): 11 caught at once. Missed: `C10-touched-identical`
  (delete main file, enforce, re-create it byte for byte) - generated
  contents were always new. Added content-restoring rewrites and, in the
  systematic short sub-run, worlds starting with the alphabet's own content
  plus histories that enforce after every step.
* **Round 2** (12): missed `C09-symlinks-skipped` (SimFS had no symbolic
  links - added, also on the real-disk fidelity path),
  `C20-lock-released-around-io` (effective only when the reload is driven by
  a direct `load_rules()` - the reloading thread now also does that, with a
  sweep variant), `C20-stale-owner-after-exception` (a thread whose previous
  call left by `PolicyNotAuthorized` skips the lock - added `do_raise=True`
  calls, two calls per thread, call-boundary segments).
  `C16-debug-masks-target` and `C16-tls-precheck-memo` were caught only
  because the debug-logging and lenient-transport knobs had just been added
  after reading their descriptions.
* **Round 3** (12): 9 missed at first - glob metacharacters in directory
  names, a directory configured twice, canonically-equal-but-not-textually-
  equal overrides (value equality on checks), late registration, Check-object
  rules, a literal `%%` in the URL, a re-scoped `RequestContext` reused
  across calls, one `Rules` object handed to two enforcers, an `http:` leaf
  whose network wait releases the lock, a racy lazily created lock on the
  first-ever calls. All generated now (§8.1).
* **Round 4** (12): 5 of the 10 in-scope ones missed at first - a predecessor
  that is still registered itself, `deprecated_for_removal` together with a
  predecessor, a forced load after a same-mtime edit, a fault that comes and
  goes on one enforcer (sticky cycle guard), options changed on the live conf
  between two remote calls. Two are **out of scope and stay uncaught**:
  `C12-clear-keeps-file-rules` (needs `Enforcer.clear()`, outside C12's
  quantifier; on the unchanged tree a cleared enforcer is not equivalent to a
  fresh one because `clear()` drops the default rule) and
  `C20-epoch-mtime-forced-read` (needs a file whose mtime is exactly 0; the
  unchanged library itself mishandles directories at the epoch, so such
  worlds cannot be judged).
* **Round 5** (12): 5 missed at first - `InvalidScope` escaping
  `enforce(do_raise=True)`, an undefined name resolved through a default rule
  holding a remote check, a case-variant content type, a forced reload of a
  fresh enforcer in a world whose directories hold only dot-files (C09), a
  dirs-only reload under threads (C20 scenario S7). Two more were caught with
  margins of 2-3 runs only (symlink edited in place) and got a generator
  bias.
* **Round 6** (12, one of each pair a one-line slip): 3 missed at first -
  a constructor argument repeating the option value, a top-level tuple in the
  target, a forced reload without a main file after a same-mtime edit (caught
  by 1 run of 2264, then given a directed prefix).
* **Round 7** (12): 2 of the 11 in-scope ones missed at first - an alias
  test through `lstrip('rule:')` that only bites when the new name starts
  with r, u, l, e or ':' (the name pool now varies first letters) and
  `sort_keys=True` on the form payload (targets now hold dicts with mixed
  key types). `C10-file-rules-snapshot-aliased`, which needs two consecutive
  directory-only rebuilds, was caught by 1-3 runs only and got a directed
  history prefix. `C16-reply-not-sniffed` is **out of scope and stays
  uncaught**: it differs from the unchanged library only on replies whose
  decoding depends on charset sniffing (a byte-order mark with no declared
  charset), which §4 C16 leaves unconstrained.
* **Round 8** (12): 3 missed at first - a deprecated default that is the
  empty check string `''` (allow all; expressions can now be the empty
  string at top level), a placeholder key with characters outside
  `[\\w.-]` in the rule URL, and `C10-vanished-main-early-return`, whose
  wrong state lasts for exactly ONE decision after a four-step sequence
  (observations now ask the long-lived enforcer in a rotated order so that
  every probe gets to be the first decision after an edit, and a directed
  prefix builds the sequence). The sub-agents reported that in-scope ideas
  were getting hard to find; several round-7/8 changes are independent
  rediscoveries of earlier mechanisms.
* **Round 9** (12; a later session, sub-agents again given the property
  text only and no list of earlier ideas): 11 caught at once, several of
  them independent rediscoveries (memoised TLS pre-checks, lock on the
  replaceable rule store, per-old-name override memo). Missed:
  `C16-nested-blanking-in-place` - opaque-object blanking made recursive,
  walking the caller's lists in place; it needs an `object()` BELOW the top
  level of the target. Targets now sometimes carry one (inside a list, dict,
  tuple, list-of-dict, dict-of-list); for those calls the decision is left
  unconstrained (the unchanged library raises while encoding, a library that
  blanks them too would be just as right) and only "the caller's target is
  left unmodified" is judged, by a structural fingerprint that compares
  bare objects by identity - that fingerprint is now taken for every call.
  `C12-class-level-merge-memo` was reported, but its replay file did not
  reproduce in a fresh interpreter: the violating run depended on what the
  PREVIOUS simulated run had left in a class attribute. Replay files can
  now carry a `prelude` (the fewest preceding cases of the same sub-run
  that make the violation reproduce; `prelude_indices`), executed first.
* **Round 10** (12; sub-agents given the property text plus the list of
  ideas already used). Missed on the first run:
  `C09-backup-suffix-files-skipped` (policy.d names ending in `~`, `.bak`,
  `.orig`, `.rpmsave` ... skipped like dot-files; the directory file-name
  pool now holds such names, which sort right after their base names).
  `C11-flag-snapshotted-at-construction` was reported on the first run only
  because, after reading its description, worlds had just learned to
  apply `enforce_new_defaults` / `enforce_scope` AFTER constructing the
  enforcer (knob `options_after_ctor`, 20 %% of the worlds; the library reads
  options live, so the order must not matter - this is configuration order,
  not a runtime toggle). Three changes are reported by another check than
  the one their author aimed at, and that is the right check:
  `C09-forced-read-served-from-cache` needs a same-mtime edit plus a forced
  load on a long-lived enforcer (C12 reports it; C09 judges fresh enforcers
  and C10 only edits that advance mtimes); `C20-no-main-reset-via-set-rules`
  and `C20-rulecheck-resolution-memo` leave the lock intact and produce state
  that stays wrong AFTER the reload (C10 reports both; the C20 check stays
  quiet on them because every decision it observes equals a complete old or
  new policy as computed on that same tree). Process-wide state
  (`C10-process-wide-dir-record`, `C12-process-wide-file-cache`) is reported
  by C10/C12 through enforcers of the same run and of earlier runs.
* `C12-empty-dirs-skipped-before-detection` (round 8) is a staleness bug
  that its author filed under C12. C10 reports it on every seed tried (24-25
  of 6264 runs). The C12 check had also reported it in 2 of 2264 runs; since
  the world generators changed in the second session (other file-name pool,
  one more knob) it does so in 0 runs at seeds 0 and 1. It is now listed
  under C10 only - a catch by two runs was luck, not coverage.
* `C11-addcheck-flag-toggle` (round 2) needs an option toggled on a live conf
  between two loads of one enforcer, outside C11's quantifier; the C11 check
  does not generate toggles. The same change makes the merged OR-chain grow on
  every rebuild - C12's "a merged deprecated check does not grow" - and the
  C12 check reports it.

A check for another property often fires too (stale `file_rules` is reported
by C10, C11 and C12): the properties overlap, and each of those alarms is a
real violation of the property that raises it.

### 9.2 Sensitivity catalogue (`sim/mutants.py`, `run.py selftest`)

%d hand-written one- or two-site patches, each applied to a scratch copy and
run at half the quick budget (`logs/selftest_final.txt`, final code): all are
reported, every replay reproduces in a fresh interpreter, and the six
unpatched scratch copies are clean. `c20-load-outside-lock` (lock removed
from `load_rules` only) is observable only when a thread reloads through a
direct `load_rules()` call; it is reported since the reloading thread does
that too. Two of them (`c20-event-gate-check-then-act`, a hand-rolled
re-entrant gate on a `threading.Event` with a check-then-act window, and
`c20-semaphore-two-permits`) were added together with the scheduler's
cooperative `Semaphore`/`BoundedSemaphore`/`Event` (§8.1) and are reported
(`logs/selftest_event_semaphore.txt`). After the world generators changed
in the second session the C09 and C11 parts of the catalogue were run again:
all 20 mutants reported, unpatched copies clean
(`logs/selftest_session2_C09.txt`, `logs/selftest_session2_C11.txt`).

| property | mutants |
|---|---|''' % len(mutants.MUTANTS))
byp = {}
for m in mutants.MUTANTS:
    byp.setdefault(m['props'][0], []).append(m['id'])
for p in sorted(byp):
    out.append('| %s | %s |' % (p, ', '.join('`%s`' % x for x in byp[p])))

s = open('/verif/DESIGN.md').read()
i = s.find('\n## 9. Which checks catch which changes')
if i >= 0:
    s = s[:i]
open('/verif/DESIGN.md', 'w').write(s.rstrip('\n') + '\n' +
                                    '\n'.join(out) + '\n')
print('seeded ids:', len(ids), 'in log:', len(rows), 'known misses:',
      n_known_miss)
