#!/bin/bash
# harvest.sh <PID> <k> <name>: confirm a sub-agent's seeded change in its scratch
# worktree /tmp/wt_<PID>/_seeded/<k> and copy it to /verif/seeded/<name>/
set -u
PID=$1; K=$2; NAME=$3
WT=${4:-/tmp/wt_$PID}
S=$WT/_seeded/$K
cd $WT || exit 2
git checkout -q -- . ; git status --short | grep -v '^??' && { echo "worktree dirty"; exit 2; }
echo "== demo on unchanged tree (expect pass)"
PYTHONPATH=$WT timeout 600 /venv/bin/python $S/demo.py > /tmp/harvest_demo_clean.log 2>&1; RC_CLEAN=$?
echo "rc=$RC_CLEAN"
git apply $S/patch.diff || { echo "patch does not apply"; exit 2; }
echo "== test suite with change"
timeout 1200 /venv/bin/python -m pytest -q -p no:cacheprovider oslo_policy/tests 2>&1 | tail -3 > /tmp/harvest_tests.log; cat /tmp/harvest_tests.log
FAILED=$(grep -c "^FAILED" /tmp/harvest_tests.log)
echo "== demo with change (expect fail)"
PYTHONPATH=$WT timeout 600 /venv/bin/python $S/demo.py > /tmp/harvest_demo_mut.log 2>&1; RC_MUT=$?
echo "rc=$RC_MUT"; tail -3 /tmp/harvest_demo_mut.log
git checkout -q -- .
SUMMARY=$(grep -E "passed|failed" /tmp/harvest_tests.log | tail -1)
if [ $RC_CLEAN -eq 0 ] && [ $RC_MUT -ne 0 ] && echo "$SUMMARY" | grep -q "1 failed"; then
  mkdir -p /verif/seeded/$NAME
  cp $S/patch.diff /verif/seeded/$NAME/patch.diff
  cp $S/demo.py /verif/seeded/$NAME/demo.py
  cp $S/notes.md /verif/seeded/$NAME/notes.md 2>/dev/null
  echo "CONFIRMED $NAME: tests='$SUMMARY' demo_clean=$RC_CLEAN demo_mut=$RC_MUT"
else
  echo "NOT CONFIRMED $NAME: tests='$SUMMARY' demo_clean=$RC_CLEAN demo_mut=$RC_MUT"; exit 1
fi
